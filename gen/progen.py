"""E2 program generator: seeded, typed, valid-by-construction Datalog programs in the C01 fragment."""
import random
from .dl import *

DEFAULT_CFG = dict(
    n_edb=(2, 4), n_idb=(3, 8), max_arity=3, max_facts=18,
    p_recursive=0.5, p_negation=0.3, p_aggregate=0.3, p_constraint=0.5, p_let=0.35, p_range=0.08,
    p_disj=0.12, p_multihead=0.08, p_records=0.5, p_adts=0.4, p_floats=0.4, p_unsigned=0.4,
    p_symbols=0.7, p_subset=0.4, p_eqrel=0.0, p_file_input=0.5, p_nullary=0.05, p_head_aggr=0.08,
    p_unnamed=0.12, p_const_arg=0.1, sinks_only=False, scale=1, rules_per_rel=(1, 3), body_atoms=(1, 3),
    rec_guard=40, p_rec_atom=0.3,
)


class Gen:
    def __init__(self, seed, cfg=None):
        self.rng = random.Random(seed)
        self.cfg = dict(DEFAULT_CFG)
        if cfg:
            self.cfg.update(cfg)
        self.p = Program()
        self.pools = {}       # type name -> list of values
        self.types = []       # all usable attribute types
        self.vcount = 0
        self.feat = self.p.features

    # ------------------------------------------------------------------ helpers
    def chance(self, p):
        return self.rng.random() < p

    def fresh(self):
        self.vcount += 1
        return "v%d" % self.vcount

    def pool(self, ty):
        return self.pools[ty.name]

    # ------------------------------------------------------------------ types
    def make_types(self):
        r, c = self.rng, self.cfg
        sc = c["scale"]
        self.types = [NUMBER]
        n_num = 8 * sc
        self.pools["number"] = sorted(r.sample(range(-4, 4 + 12 * sc), min(n_num, 8 + 12 * sc)))
        if self.chance(c["p_symbols"]):
            self.types.append(SYMBOL)
        syms = ["a", "b", "ab", "c d", "x1", "", "Zq", "b+", "k_9", "long symbol", "a b", "0", "12"]
        syms += ["s%d" % i for i in range(8 * (sc - 1))]
        self.pools["symbol"] = r.sample(syms, min(len(syms), 6 * sc))
        if self.chance(c["p_unsigned"]):
            self.types.append(UNSIGNED)
        self.pools["unsigned"] = sorted(r.sample(range(0, 14 * sc), 7 * sc))
        if self.chance(c["p_floats"]):
            self.types.append(FLOAT)
        self.pools["float"] = sorted(set(f32(x * 0.25) for x in r.sample(range(-12, 30), 7)))
        if self.chance(c["p_subset"]):
            t = Ty("Sn", "number", base=NUMBER)
            self.p.types.append(t)
            self.types.append(t)
            self.pools["Sn"] = sorted(r.sample(self.pools["number"], max(2, len(self.pools["number"]) // 2)))
            self.feat.add("subset-type")
            if SYMBOL in self.types and self.chance(0.5):
                t2 = Ty("Ss", "symbol", base=SYMBOL)
                self.p.types.append(t2)
                self.types.append(t2)
                self.pools["Ss"] = r.sample(self.pools["symbol"], max(2, len(self.pools["symbol"]) // 2))
            if self.chance(0.4):
                t3 = Ty("Sm", "number", base=NUMBER)
                u = Ty("Un", "number", members=[t, t3])
                self.p.types.extend([t3, u])
                self.types.append(u)
                self.pools["Sm"] = sorted(r.sample(self.pools["number"], 3))
                self.pools["Un"] = sorted(set(self.pools["Sn"]) | set(self.pools["Sm"]))
                self.feat.add("union-type")
        safe_syms = [s for s in self.pools["symbol"] if "," not in s and "]" not in s and ")" not in s] or ["q"]
        if self.chance(c["p_records"]):
            f2 = SYMBOL if (SYMBOL in self.types and self.chance(0.6)) else NUMBER
            t = Ty("P", "record", fields=[("a", NUMBER), ("b", f2)])
            self.p.types.append(t)
            self.types.append(t)
            vals = [None]
            for _ in range(5):
                vals.append((r.choice(self.pools["number"]), r.choice(safe_syms) if f2 is SYMBOL else r.choice(self.pools["number"])))
            self.pools["P"] = list(dict.fromkeys(vals))
            self.feat.add("record")
            if self.chance(0.5):
                lt = Ty("L", "record")
                lt.fields = [("h", NUMBER), ("t", lt)]
                self.p.types.append(lt)
                self.types.append(lt)
                vals = [None]
                for _ in range(4):
                    v = None
                    for _ in range(r.randint(1, 3)):
                        v = (r.choice(self.pools["number"]), v)
                    vals.append(v)
                self.pools["L"] = list(dict.fromkeys(vals))
                self.feat.add("recursive-record")
        if self.chance(c["p_adts"]):
            f2 = SYMBOL if (SYMBOL in self.types and self.chance(0.5)) else NUMBER
            t = Ty("A", "adt", branches=[("N", []), ("I", [("v", NUMBER)]), ("B", [("x", NUMBER), ("y", f2)])])
            self.p.types.append(t)
            self.types.append(t)
            vals = [("$N",)]
            for _ in range(3):
                vals.append(("$I", r.choice(self.pools["number"])))
                vals.append(("$B", r.choice(self.pools["number"]), r.choice(safe_syms) if f2 is SYMBOL else r.choice(self.pools["number"])))
            self.pools["A"] = list(dict.fromkeys(vals))
            self.feat.add("adt")
            if self.chance(0.35):
                e = Ty("E", "adt", branches=[("Red", []), ("Green", []), ("Blue", [])])
                self.p.types.append(e)
                self.types.append(e)
                self.pools["E"] = [("$Red",), ("$Green",), ("$Blue",)]
                self.feat.add("enum-adt")

    def pick_type(self):
        # bias towards number / symbol
        r = self.rng
        if self.chance(0.45):
            return NUMBER
        return r.choice(self.types)

    # ------------------------------------------------------------------ relations
    def make_relations(self):
        r, c = self.rng, self.cfg
        n_edb = r.randint(*c["n_edb"])
        n_idb = r.randint(*c["n_idb"])
        self.edb, self.idb = [], []
        for i in range(n_edb):
            ar = 0 if self.chance(c["p_nullary"]) else r.randint(1, c["max_arity"])
            rel = Relation("e%d" % i, [("a%d" % k, self.pick_type()) for k in range(ar)])
            rel.is_input = self.chance(c["p_file_input"]) and ar > 0
            nf = 0 if self.chance(0.06) else r.randint(1, c["max_facts"] * c["scale"])
            facts = set()
            for _ in range(nf):
                facts.add(tuple(r.choice(self.pool(t)) for (_, t) in rel.attrs))
            rel.facts = sorted(facts, key=repr)
            r.shuffle(rel.facts)
            rel.is_output = not c["sinks_only"]
            self.edb.append(rel)
            self.p.rels.append(rel)
        # ensure at least one EDB relation has a number column (used to ground things)
        if not any(t is NUMBER for e in self.edb for (_, t) in e.attrs):
            rel = Relation("e%d" % n_edb, [("a0", NUMBER)])
            rel.facts = [(v,) for v in r.sample(self.pools["number"], min(5, len(self.pools["number"])))]
            rel.is_output = not c["sinks_only"]
            self.edb.append(rel)
            self.p.rels.append(rel)
        self.groups = []   # list of (list of Relation, recursive?)
        i = 0
        while i < n_idb:
            ar = 0 if self.chance(c["p_nullary"]) else r.randint(1, c["max_arity"])
            rel = Relation("r%d" % i, [("a%d" % k, self.pick_type()) for k in range(ar)])
            rel.is_output = True
            grp = [rel]
            i += 1
            if i < n_idb and self.chance(0.25):
                ar2 = r.randint(1, c["max_arity"])
                # share at least the first attribute type so mutual recursion is easy
                attrs2 = [("a%d" % k, self.pick_type()) for k in range(ar2)]
                if rel.attrs:
                    attrs2[0] = ("a0", rel.attrs[0][1])
                rel2 = Relation("r%d" % i, attrs2)
                rel2.is_output = True
                grp.append(rel2)
                i += 1
            rec = self.chance(c["p_recursive"]) and all(len(x.attrs) > 0 for x in grp)
            self.groups.append((grp, rec))
            for x in grp:
                self.idb.append(x)
                self.p.rels.append(x)
        if c["p_eqrel"] > 0 and self.chance(c["p_eqrel"]):
            self.make_eqrel()

    def make_eqrel(self):
        # an eqrel relation fed from the pairs of some binary number relation (or two unary ones)
        r = self.rng
        rel = Relation("eq", [("a0", NUMBER), ("a1", NUMBER)], quals=["eqrel"])
        rel.is_output = True
        self.eqrel = rel
        self.feat.add("eqrel")

    # ------------------------------------------------------------------ terms
    def const_term(self, ty):
        v = self.rng.choice(self.pool(ty))
        return self.value_term(v, ty)

    def value_term(self, v, ty):
        if ty.kind == "record":
            if v is None:
                return Rec(None, ty)
            return Rec([self.value_term(x, ft) for x, (fn, ft) in zip(v, ty.fields)], ty)
        if ty.kind == "adt":
            b = v[0][1:]
            fs = dict(ty.branches)[b]
            return Adt(b, [self.value_term(x, ft) for x, (fn, ft) in zip(v[1:], fs)], ty)
        text = None
        if ty.kind == "unsigned" and self.chance(0.3):
            text = "%du" % v
        elif ty.kind == "number" and v >= 0 and self.chance(0.08):
            text = hex(v) if self.chance(0.5) else "0b" + bin(v)[2:]
        return Const(v, PRIM[ty.kind] if ty.kind in PRIM else ty, text)

    def vars_of(self, bound, pred):
        return [v for v, t in bound.items() if pred(t)]

    def arg_for_atom(self, ty, bound, allow_unnamed=True, allow_fresh=True, exact=True, in_aggr=False):
        """choose an argument for a body-atom position of type ty; may bind a fresh variable"""
        r, c = self.rng, self.cfg
        same = self.vars_of(bound, lambda t: t.name == ty.name)
        x = r.random()
        if same and x < 0.45:
            return Var(r.choice(same))
        if x < 0.80:
            if ty.kind in ("record", "adt") and self.chance(0.3):
                return self.pattern_for(ty, bound)
            v = self.fresh()
            bound[v] = ty
            return Var(v)
        if x < 0.80 + c["p_const_arg"]:
            return self.const_term(ty)
        if allow_unnamed and not in_aggr and x < 0.80 + c["p_const_arg"] + c["p_unnamed"]:
            return Unnamed()
        v = self.fresh()
        bound[v] = ty
        return Var(v)

    def pattern_for(self, ty, bound):
        """destructuring pattern binding fresh variables"""
        if ty.kind == "record":
            args = []
            for fn, ft in ty.fields:
                if ft.kind in ("record", "adt") and self.chance(0.5) and ft is not ty:
                    args.append(self.pattern_for(ft, bound))
                else:
                    v = self.fresh()
                    bound[v] = ft
                    args.append(Var(v))
            return Rec(args, ty)
        b, fs = self.rng.choice(ty.branches)
        args = []
        for fn, ft in fs:
            v = self.fresh()
            bound[v] = ft
            args.append(Var(v))
        return Adt(b, args, ty)

    def num_expr(self, kind, bound, recursive):
        """arithmetic expression of the given primitive kind over bound variables; None if impossible"""
        r = self.rng
        vs = self.vars_of(bound, lambda t: t.kind == kind and t.members is None)
        if not vs:
            return None
        x = Var(r.choice(vs))
        prim = PRIM[kind]
        if kind == "float":
            ch = r.choice(["+c", "-c", "*2", "neg", "min", "max", "+v"])
            cst = Const(f32(r.choice([0.25, 0.5, 1.0, 1.5, 2.0, 3.0])), FLOAT)
            if recursive:
                ch = "+c"
            if ch == "+c":
                return Functor("+", [x, cst], kind)
            if ch == "-c":
                return Functor("-", [x, cst], kind)
            if ch == "*2":
                return Functor("*", [x, Const(2.0, FLOAT)], kind)
            if ch == "neg":
                return Functor("neg", [x], kind)
            y = Var(r.choice(vs))
            if ch == "+v":
                return Functor("+", [x, y], kind)
            return Functor(ch, [x, y], kind)
        small = Const(r.randint(1, 3), prim)
        if recursive:
            return Functor("+", [x, small], kind)
        ch = r.choice(["+c", "-c", "*c", "/c", "%c", "+v", "-v", "band", "bor", "bxor", "min", "max", "neg", "*v_small"])
        if kind == "unsigned" and ch in ("neg",):
            ch = "+c"
        y = Var(r.choice(vs))
        if ch == "+c":
            return Functor("+", [x, small], kind)
        if ch == "-c":
            return Functor("-", [x, small], kind)
        if ch == "*c":
            return Functor("*", [x, small], kind)
        if ch == "/c":
            return Functor("/", [x, Const(r.randint(1, 4), prim)], kind)
        if ch == "%c":
            return Functor("%", [x, Const(r.randint(2, 5), prim)], kind)
        if ch == "+v":
            return Functor("+", [x, y], kind)
        if ch == "-v":
            return Functor("-", [x, y], kind)
        if ch == "*v_small":
            return Functor("*", [Functor("%", [x, Const(4, prim)], kind), Functor("%", [y, Const(4, prim)], kind)], kind)
        if ch == "neg":
            return Functor("neg", [x], kind)
        return Functor(ch, [x, y], kind)

    def sym_expr(self, bound):
        r = self.rng
        vs = self.vars_of(bound, lambda t: t.kind == "symbol")
        ns = self.vars_of(bound, lambda t: t.kind == "number" and t.members is None)
        ch = r.choice(["cat", "catc", "tostr", "substr"])
        if ch == "tostr" and ns:
            return Functor("to_string", [Var(r.choice(ns))], "number")
        if not vs:
            return None
        x = Var(r.choice(vs))
        if ch == "cat":
            return Functor("cat", [x, Var(r.choice(vs))], "symbol")
        if ch == "catc":
            return Functor("cat", [x, Const(r.choice(["", "-", "z"]), SYMBOL)], "symbol")
        return Functor("substr", [x, Const(0, NUMBER), Const(r.randint(0, 3), NUMBER)], "symbol")

    def term_of_type(self, ty, bound, recursive, depth=0):
        """a term evaluable under `bound` usable where type ty is expected (head / functor argument)"""
        r = self.rng
        cands = self.vars_of(bound, lambda t: subtype(t, ty))
        x = r.random()
        if cands and x < 0.7:
            return Var(r.choice(cands))
        if ty.is_prim() and ty.kind in ("number", "unsigned", "float") and x < 0.85:
            e = self.num_expr(ty.kind, bound, recursive)
            if e is not None:
                self.feat.add("arith")
                return e
        if ty is SYMBOL and x < 0.85 and not recursive:
            e = self.sym_expr(bound)
            if e is not None:
                self.feat.add("string-functor")
                return e
        if ty.base is not None and ty.kind == "number" and x < 0.85:
            vs = self.vars_of(bound, lambda t: t.kind == "number" and t.members is None)
            if vs:
                self.feat.add("as-cast")
                return As(Var(r.choice(vs)), ty, "number")
        if ty.kind == "record" and x < 0.9 and depth < 2:
            rec_type = any(ft is ty for fn, ft in ty.fields)
            if not (recursive and rec_type):
                self.feat.add("record-construct")
                return Rec([self.term_of_type(ft, bound, recursive, depth + 1) for fn, ft in ty.fields], ty)
        if ty.kind == "adt" and x < 0.9 and depth < 2:
            b, fs = r.choice(ty.branches)
            self.feat.add("adt-construct")
            return Adt(b, [self.term_of_type(ft, bound, recursive, depth + 1) for fn, ft in fs], ty)
        if cands:
            return Var(r.choice(cands))
        return self.const_term(ty)

    # ------------------------------------------------------------------ literals
    def gen_atom(self, rel, bound, allow_unnamed=True, in_aggr=False):
        args = [self.arg_for_atom(t, bound, allow_unnamed=allow_unnamed and not in_aggr, in_aggr=in_aggr) for (_, t) in rel.attrs]
        return Atom(rel.name, args)

    def gen_filter_atom(self, rel, bound):
        """atom whose arguments are bound variables / constants / unnamed only"""
        args = []
        for (_, t) in rel.attrs:
            same = self.vars_of(bound, lambda x: x.name == t.name)
            x = self.rng.random()
            if same and x < 0.6:
                args.append(Var(self.rng.choice(same)))
            elif x < 0.8:
                args.append(self.const_term(t))
            else:
                args.append(Unnamed())
        return Atom(rel.name, args)

    def gen_constraint(self, bound):
        r = self.rng
        prim_vars = self.vars_of(bound, lambda t: t.kind in ("number", "unsigned", "float", "symbol"))
        if not prim_vars:
            return None
        v = r.choice(prim_vars)
        k = bound[v].kind
        same = [w for w in prim_vars if bound[w].name == bound[v].name and w != v]
        op = r.choice(["<", "<=", ">", ">=", "!=", "="] if k != "symbol" else ["!=", "<", ">=", "=", "!="])
        if same and self.chance(0.5):
            rhs = Var(r.choice(same))
        else:
            rhs = Const(r.choice(self.pools[k]), PRIM[k])
        if k == "symbol" and self.chance(0.15):
            self.feat.add("contains")
            return Cmp("contains", Const(r.choice(["a", "b", " ", "1"]), SYMBOL), Var(v), "symbol")
        if k == "symbol" and self.chance(0.1):
            self.feat.add("match")
            return Cmp("match", Const(r.choice(["a.*", ".*b", "[a-z]+", ".?", "x[0-9]"]), SYMBOL), Var(v), "symbol")
        return Cmp(op, Var(v), rhs, k)

    def gen_aggregate(self, bound, lower):
        """returns (Aggr term, result type) or None"""
        r = self.rng
        cands = [q for q in lower if len(q.attrs) > 0]
        if not cands:
            return None
        q = r.choice(cands)
        # only variables grounded directly by atoms may be injected (souffle cannot ground others when it
        # has to materialise the aggregate body)
        bound = {v: t for v, t in bound.items() if v not in self.nonatom}
        a1 = Atom(q.name, [])
        local = {}
        for (_, t) in q.attrs:
            same_outer = self.vars_of(bound, lambda x: x.name == t.name)
            x = r.random()
            if same_outer and x < 0.3:
                a1.args.append(Var(r.choice(same_outer)))
            elif x < 0.9:
                v = self.fresh()
                local[v] = t
                a1.args.append(Var(v))
            else:
                a1.args.append(self.const_term(t))
        body = [a1]
        if self.chance(0.3) and local:
            # second atom sharing a local variable
            q2 = r.choice(cands)
            a2 = Atom(q2.name, [])
            shared = False
            local2 = {}
            for (_, t) in q2.attrs:
                same_local = [v for v, tt in local.items() if tt.name == t.name]
                if same_local and (not shared or self.chance(0.4)):
                    a2.args.append(Var(r.choice(same_local)))
                    shared = True
                else:
                    v = self.fresh()
                    local2[v] = t
                    a2.args.append(Var(v))
            if shared:
                local.update(local2)
                body.append(a2)
                self.feat.add("aggregate-multi-atom")
        if self.chance(0.3):
            both = dict(bound)
            both.update(local)
            cst = self.gen_constraint(local if self.chance(0.6) else both)
            if cst is not None:
                body.append(cst)
        numeric_local = [v for v, t in local.items() if t.kind in ("number", "unsigned", "float") and t.members is None]
        ops = ["count"]
        if numeric_local:
            ops += ["sum", "min", "max", "sum", "min", "max"]
            if any(local[v].kind == "float" for v in numeric_local):
                ops += ["mean", "mean"]
        op = r.choice(ops)
        self.feat.add("aggregate-" + op)
        if op == "count":
            return Aggr("count", None, body, "number"), NUMBER
        if op == "mean":
            v = r.choice([v for v in numeric_local if local[v].kind == "float"])
            return Aggr("mean", Var(v), body, "float"), FLOAT
        v = r.choice(numeric_local)
        k = local[v].kind
        return Aggr(op, Var(v), body, k), PRIM[k]

    # ------------------------------------------------------------------ rules
    def gen_rule(self, head_rel, gi, recursive_rule):
        r, c = self.rng, self.cfg
        grp, rec = self.groups[gi]
        lower = self.edb + [x for (g, _) in self.groups[:gi] for x in g]
        if getattr(self, "eqrel", None) is not None and 0 <= self.eqrel_group < gi:
            lower = lower + [self.eqrel]
        bound = {}
        self.nonatom = set()
        body = []
        natoms = r.randint(*c["body_atoms"])
        rels = []
        if recursive_rule:
            rels.append(r.choice(grp))
            for _ in range(natoms - 1):
                rels.append(r.choice(grp) if self.chance(c["p_rec_atom"]) else r.choice(lower))
            r.shuffle(rels)
        else:
            for _ in range(natoms):
                rels.append(r.choice(lower))
        for q in rels:
            body.append(self.gen_atom(q, bound))
        # extra literals
        if self.chance(c["p_range"]) and not recursive_rule:
            v = self.fresh()
            a, b = r.randint(-2, 4), r.randint(-2, 8)
            args = [Const(a, NUMBER), Const(b, NUMBER)]
            if self.chance(0.3):
                s = r.choice([1, 2, 3, -1, -2])
                args.append(Const(s, NUMBER))
            body.append(Cmp("=", Var(v), Functor("range", args, "number"), "number"))
            bound[v] = NUMBER
            self.nonatom.add(v)
            self.feat.add("range")
        if self.chance(c["p_let"]):
            kinds = [k for k in ("number", "unsigned", "float") if self.vars_of(bound, lambda t: t.kind == k and t.members is None)]
            if kinds:
                k = r.choice(kinds)
                e = self.num_expr(k, bound, recursive_rule)
                v = self.fresh()
                body.append(Cmp("=", Var(v), e, k))
                if recursive_rule:
                    g = c["rec_guard"]
                    body.append(Cmp("<", Var(v), Const(f32(float(g)) if k == "float" else g, PRIM[k]), k))
                    if k != "unsigned":
                        body.append(Cmp(">", Var(v), Const(f32(float(-g)) if k == "float" else -g, PRIM[k]), k))
                bound[v] = PRIM[k]
                self.nonatom.add(v)
                self.feat.add("let")
        if self.chance(c["p_aggregate"]) and lower:
            ag = self.gen_aggregate(bound, lower)
            if ag is not None:
                v = self.fresh()
                body.append(Cmp("=", Var(v), ag[0], ag[1].kind))
                bound[v] = ag[1]
                self.nonatom.add(v)
                if recursive_rule and ag[0].op == "sum":
                    pass
        n_c = 0
        while self.chance(c["p_constraint"]) and n_c < 2:
            cst = self.gen_constraint(bound)
            if cst is not None:
                body.append(cst)
                self.feat.add("constraint")
            n_c += 1
        if self.chance(c["p_negation"]) and lower:
            q = r.choice(lower)
            body.append(Neg(self.gen_filter_atom(q, bound)))
            self.feat.add("negation")
        if self.chance(c["p_disj"]) and lower:
            alts = []
            for _ in range(r.randint(2, 3)):
                alt = []
                for _ in range(r.randint(1, 2)):
                    x = r.random()
                    lit = None
                    if x < 0.4:
                        lit = self.gen_constraint(bound)
                    elif x < 0.7:
                        lit = Neg(self.gen_filter_atom(r.choice(lower), bound))
                    if lit is None:
                        lit = self.gen_filter_atom(r.choice(lower), bound)
                    alt.append(lit)
                alts.append(alt)
            body.append(Disj(alts))
            self.feat.add("disjunction")
        # heads
        heads = [self.gen_head(head_rel, bound, body, recursive_rule, lower)]
        if self.chance(c["p_multihead"]):
            later = [x for (g, rc) in self.groups[gi + 1:] for x in g if not rc or True]
            same = [x for x in grp if x is not head_rel]
            pool = same + later
            if pool:
                h2 = r.choice(pool)
                heads.append(self.gen_head(h2, bound, body, recursive_rule or (h2 in grp and rec), lower))
                self.feat.add("multi-head")
        # guard numeric head growth in recursive groups
        r.shuffle(body) if self.chance(0.3) else None
        return Clause(heads, body)

    def gen_head(self, rel, bound, body, recursive_rule, lower):
        r, c = self.rng, self.cfg
        args = []
        for (_, t) in rel.attrs:
            cands = self.vars_of(bound, lambda x: subtype(x, t))
            if not cands and self.chance(0.6):
                # add an atom that provides a variable of this type
                prov = [(q, i) for q in lower for i, (_, tt) in enumerate(q.attrs) if tt.name == t.name]
                if prov:
                    q, i = r.choice(prov)
                    at = Atom(q.name, [Unnamed() for _ in q.attrs])
                    v = self.fresh()
                    at.args[i] = Var(v)
                    bound[v] = t
                    body.append(at)
            if self.chance(c["p_head_aggr"]) and t is NUMBER and lower and not recursive_rule:
                ag = self.gen_aggregate(bound, lower)
                if ag is not None and ag[1] is NUMBER:
                    args.append(ag[0])
                    self.feat.add("head-aggregate")
                    continue
            term = self.term_of_type(t, bound, recursive_rule)
            if recursive_rule:
                # guard: bounded growth for every arithmetic node of the head term
                fs = []
                walk_terms(term, lambda x: fs.append(x) if isinstance(x, Functor) else None)
                for f in fs:
                    k = f.kind
                    if k not in ("number", "unsigned", "float") or not isinstance(f.args[0], Var):
                        continue
                    g = c["rec_guard"]
                    body.append(Cmp("<", f.args[0], Const(f32(float(g)) if k == "float" else g, PRIM[k]), k))
                    if k != "unsigned":
                        body.append(Cmp(">", f.args[0], Const(f32(float(-g)) if k == "float" else -g, PRIM[k]), k))
            args.append(term)
        return Atom(rel.name, args)

    def make_rules(self):
        r, c = self.rng, self.cfg
        self.eqrel_group = -1
        for gi, (grp, rec) in enumerate(self.groups):
            for rel in grp:
                n = r.randint(*c["rules_per_rel"])
                self.p.clauses.append(self.gen_rule(rel, gi, False))
                for _ in range(n - 1):
                    self.p.clauses.append(self.gen_rule(rel, gi, rec and self.chance(0.7)))
                if rec and not any(True for _ in range(0)):
                    pass
            if rec:
                self.p.clauses.append(self.gen_rule(r.choice(grp), gi, True))
                self.feat.add("recursion")
                if len(grp) > 1:
                    self.feat.add("mutual-recursion")
            if getattr(self, "eqrel", None) is not None and self.eqrel_group < 0 and self.chance(0.4):
                self.place_eqrel(gi)
        if getattr(self, "eqrel", None) is not None and self.eqrel_group < 0:
            self.place_eqrel(len(self.groups) - 1)

    def place_eqrel(self, gi):
        """eq(x,y) :- <binary number source>. placed after group gi so later groups may read it"""
        r = self.rng
        lower = self.edb + [x for (g, _) in self.groups[:gi + 1] for x in g]
        srcs = [(q, [i for i, (_, t) in enumerate(q.attrs) if t is NUMBER]) for q in lower]
        srcs = [(q, idx) for q, idx in srcs if len(idx) >= 1]
        self.eqrel_group = gi
        self.p.rels.append(self.eqrel)
        if not srcs:
            self.eqrel.facts = [(1, 2), (2, 3)]
            return
        for _ in range(r.randint(1, 2)):
            q, idx = r.choice(srcs)
            at = Atom(q.name, [Unnamed() for _ in q.attrs])
            if len(idx) >= 2:
                i, j = r.sample(idx, 2)
                at.args[i] = Var("x")
                at.args[j] = Var("y")
                self.p.clauses.append(Clause([Atom("eq", [Var("x"), Var("y")])], [at]))
            else:
                q2, idx2 = r.choice(srcs)
                at2 = Atom(q2.name, [Unnamed() for _ in q2.attrs])
                at.args[idx[0]] = Var("x")
                at2.args[idx2[0]] = Var("y")
                self.p.clauses.append(Clause([Atom("eq", [Var("x"), Var("y")])],
                                             [at, at2, Cmp("<=", Functor("-", [Var("x"), Var("y")], "number"), Const(2, NUMBER), "number"),
                                              Cmp(">=", Functor("-", [Var("x"), Var("y")], "number"), Const(-2, NUMBER), "number")]))
        self.eqrel.facts = [tuple(r.sample(self.pools["number"], 2)) for _ in range(r.randint(0, 3))]

    # ------------------------------------------------------------------ top level
    def program(self):
        self.make_types()
        self.make_relations()
        self.make_rules()
        if self.cfg["sinks_only"]:
            used = set()
            for cl in self.p.clauses:
                for (rn, pol) in clause_atoms(cl):
                    used.add(rn)
            for rel in self.p.rels:
                rel.is_output = rel.name not in used
            if not any(x.is_output for x in self.p.rels):
                self.p.rels[-1].is_output = True
        return self.p


def generate(seed, cfg=None):
    return Gen(seed, cfg).program()
