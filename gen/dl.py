"""Datalog AST used by the generator (E2), the reference evaluator (E3) and the printer.
Values: number/unsigned -> int, float -> python float holding an exact binary32, symbol -> str,
record -> tuple of values or None (nil), ADT -> ('$Branch', v1, ...)."""
import struct


# ---------------------------------------------------------------------------------------
# types
# ---------------------------------------------------------------------------------------
class Ty:
    __slots__ = ("name", "kind", "base", "fields", "branches", "members")

    def __init__(self, name, kind, base=None, fields=None, branches=None, members=None):
        self.name = name          # name as written in the program
        self.kind = kind          # number | unsigned | float | symbol | record | adt
        self.base = base          # subset types: the base type
        self.fields = fields      # record: list of (fieldname, Ty)
        self.branches = branches  # adt: list of (branchname, [(fieldname, Ty)])
        self.members = members    # union types: list of Ty

    def __repr__(self):
        return self.name

    def is_prim(self):
        return self.base is None and self.fields is None and self.branches is None and self.members is None

    def supertypes(self):
        """all types T with self <= T (reflexive), by name"""
        out = {self.name}
        if self.base is not None:
            out |= self.base.supertypes()
        if self.members is not None:
            out.add(PRIM[self.kind].name)
        if self.kind in PRIM and self.fields is None and self.branches is None:
            out.add(PRIM[self.kind].name)
        return out

    def decl(self):
        if self.is_prim():
            return None
        if self.base is not None:
            return ".type %s <: %s" % (self.name, self.base.name)
        if self.members is not None:
            return ".type %s = %s" % (self.name, " | ".join(m.name for m in self.members))
        if self.fields is not None:
            return ".type %s = [%s]" % (self.name, ", ".join("%s:%s" % (f, t.name) for f, t in self.fields))
        return ".type %s = %s" % (self.name, " | ".join(
            "%s {%s}" % (b, ", ".join("%s:%s" % (f, t.name) for f, t in fs)) for b, fs in self.branches))


NUMBER = Ty("number", "number")
UNSIGNED = Ty("unsigned", "unsigned")
FLOAT = Ty("float", "float")
SYMBOL = Ty("symbol", "symbol")
PRIM = {"number": NUMBER, "unsigned": UNSIGNED, "float": FLOAT, "symbol": SYMBOL}


def subtype(s, t):
    """s <= t"""
    if s is t or s.name == t.name:
        return True
    if t.members is not None and any(subtype(s, m) for m in t.members):
        return True
    return t.name in s.supertypes()


# ---------------------------------------------------------------------------------------
# 32-bit value helpers
# ---------------------------------------------------------------------------------------
def f32(x):
    return struct.unpack("<f", struct.pack("<f", x))[0]


def f32bits(x):
    return struct.unpack("<I", struct.pack("<f", x))[0]


def bits_f32(b):
    return struct.unpack("<f", struct.pack("<I", b & 0xFFFFFFFF))[0]


def s32(x):
    x &= 0xFFFFFFFF
    return x - 0x100000000 if x & 0x80000000 else x


def u32(x):
    return x & 0xFFFFFFFF


# ---------------------------------------------------------------------------------------
# terms
# ---------------------------------------------------------------------------------------
class Var:
    __slots__ = ("name",)

    def __init__(self, name):
        self.name = name


class Unnamed:
    __slots__ = ()


class Const:
    __slots__ = ("val", "ty", "text")

    def __init__(self, val, ty, text=None):
        self.val = val
        self.ty = ty
        self.text = text   # optional surface form (e.g. hex / suffix); None = canonical


class Functor:
    """intrinsic functor; kind = operand kind selecting the overload (number|unsigned|float|symbol)"""
    __slots__ = ("op", "args", "kind")

    def __init__(self, op, args, kind):
        self.op = op
        self.args = args
        self.kind = kind


class UserFunctor:
    __slots__ = ("name", "args")

    def __init__(self, name, args):
        self.name = name
        self.args = args


class Rec:
    __slots__ = ("args", "ty")

    def __init__(self, args, ty):
        self.args = args      # None = nil
        self.ty = ty


class Adt:
    __slots__ = ("branch", "args", "ty")

    def __init__(self, branch, args, ty):
        self.branch = branch
        self.args = args
        self.ty = ty


class As:
    __slots__ = ("arg", "ty", "fromkind")

    def __init__(self, arg, ty, fromkind):
        self.arg = arg
        self.ty = ty
        self.fromkind = fromkind


class Aggr:
    """op in count|sum|min|max|mean; target term (None for count); body = list of literals;
    kind = kind of the target (number|unsigned|float)."""
    __slots__ = ("op", "target", "body", "kind", "injected")

    def __init__(self, op, target, body, kind):
        self.op = op
        self.target = target
        self.body = body
        self.kind = kind
        self.injected = None


class Counter:
    __slots__ = ()


# ---------------------------------------------------------------------------------------
# literals, clauses, relations, program
# ---------------------------------------------------------------------------------------
class Atom:
    __slots__ = ("rel", "args")

    def __init__(self, rel, args):
        self.rel = rel      # relation name
        self.args = args


class Neg:
    __slots__ = ("atom",)

    def __init__(self, atom):
        self.atom = atom


class Cmp:
    """binary constraint: op in = != < <= > >= match contains; kind selects the overload"""
    __slots__ = ("op", "lhs", "rhs", "kind")

    def __init__(self, op, lhs, rhs, kind):
        self.op = op
        self.lhs = lhs
        self.rhs = rhs
        self.kind = kind


class Disj:
    """disjunction of conjunctions (each a list of literals); only used as a filter"""
    __slots__ = ("alts",)

    def __init__(self, alts):
        self.alts = alts


class BoolLit:
    __slots__ = ("val",)

    def __init__(self, val):
        self.val = val


class Clause:
    __slots__ = ("heads", "body", "plan", "subsume")

    def __init__(self, heads, body, plan=None, subsume=None):
        self.heads = heads    # list of Atom (multiple heads share the body)
        self.body = body      # list of literals
        self.plan = plan      # dict version -> tuple of 1-based atom indexes, or None
        self.subsume = subsume  # for subsumptive clauses: (dominated Atom, dominating Atom)


class Relation:
    __slots__ = ("name", "attrs", "quals", "is_input", "is_output", "facts", "choice", "io_params", "limitsize", "is_lattice")

    def __init__(self, name, attrs, quals=None, is_input=False, is_output=False):
        self.name = name
        self.attrs = attrs        # list of (attrname, Ty)
        self.quals = quals or []  # eqrel / brie / btree / btree_delete / inline / no_inline / magic / no_magic / overridable
        self.is_input = is_input  # facts come from <name>.facts
        self.is_output = is_output
        self.facts = []           # list of value tuples (inline facts, or file content if is_input)
        self.choice = None        # list of key tuples (attribute names)
        self.io_params = None
        self.limitsize = None
        self.is_lattice = False


class Program:
    def __init__(self):
        self.types = []       # user types in declaration order
        self.rels = []        # Relation objects in declaration order
        self.clauses = []
        self.extra_decls = []  # raw text lines (pragmas, functor decls, ...)
        self.features = set()

    def rel(self, name):
        for r in self.rels:
            if r.name == name:
                return r
        raise KeyError(name)


# ---------------------------------------------------------------------------------------
# traversal helpers
# ---------------------------------------------------------------------------------------
def term_vars(t, out, into_aggr=True):
    if isinstance(t, Var):
        out.add(t.name)
    elif isinstance(t, (Functor, UserFunctor)):
        for a in t.args:
            term_vars(a, out, into_aggr)
    elif isinstance(t, (Rec, Adt)):
        if t.args is not None:
            for a in t.args:
                term_vars(a, out, into_aggr)
    elif isinstance(t, As):
        term_vars(t.arg, out, into_aggr)
    elif isinstance(t, Aggr):
        if into_aggr:
            if t.target is not None:
                term_vars(t.target, out, into_aggr)
            for l in t.body:
                lit_vars(l, out, into_aggr)
    return out


def lit_vars(l, out, into_aggr=True):
    if isinstance(l, Atom):
        for a in l.args:
            term_vars(a, out, into_aggr)
    elif isinstance(l, Neg):
        lit_vars(l.atom, out, into_aggr)
    elif isinstance(l, Cmp):
        term_vars(l.lhs, out, into_aggr)
        term_vars(l.rhs, out, into_aggr)
    elif isinstance(l, Disj):
        for alt in l.alts:
            for x in alt:
                lit_vars(x, out, into_aggr)
    return out


def walk_terms(t, fn):
    fn(t)
    if isinstance(t, (Functor, UserFunctor)):
        for a in t.args:
            walk_terms(a, fn)
    elif isinstance(t, (Rec, Adt)):
        if t.args is not None:
            for a in t.args:
                walk_terms(a, fn)
    elif isinstance(t, As):
        walk_terms(t.arg, fn)
    elif isinstance(t, Aggr):
        if t.target is not None:
            walk_terms(t.target, fn)
        for l in t.body:
            walk_lit_terms(l, fn)


def walk_lit_terms(l, fn):
    if isinstance(l, Atom):
        for a in l.args:
            walk_terms(a, fn)
    elif isinstance(l, Neg):
        walk_lit_terms(l.atom, fn)
    elif isinstance(l, Cmp):
        walk_terms(l.lhs, fn)
        walk_terms(l.rhs, fn)
    elif isinstance(l, Disj):
        for alt in l.alts:
            for x in alt:
                walk_lit_terms(x, fn)


def clause_atoms(c, positive_only=False):
    """(relname, polarity) for every atom mention in the body, incl. inside aggregates ('agg') and negation ('neg')."""
    out = []

    def lit(l, ctx):
        if isinstance(l, Atom):
            out.append((l.rel, ctx))
            for a in l.args:
                walk_terms(a, lambda t: aggr(t))
        elif isinstance(l, Neg):
            out.append((l.atom.rel, "neg"))
        elif isinstance(l, Cmp):
            walk_terms(l.lhs, lambda t: aggr(t))
            walk_terms(l.rhs, lambda t: aggr(t))
        elif isinstance(l, Disj):
            for alt in l.alts:
                for x in alt:
                    lit(x, ctx)

    def aggr(t):
        if isinstance(t, Aggr):
            for l in t.body:
                if isinstance(l, Atom):
                    out.append((l.rel, "agg"))
                elif isinstance(l, Neg):
                    out.append((l.atom.rel, "agg"))

    for l in c.body:
        lit(l, "pos")
    for h in c.heads:
        for a in h.args:
            walk_terms(a, lambda t: aggr(t))
    return out


def sccs(prog):
    """rel name -> id of its strongly connected component in the dependency graph (head depends on body relations)"""
    deps = {r.name: set() for r in prog.rels}
    for c in prog.clauses:
        for h in c.heads:
            for (rn, ctx) in clause_atoms(c):
                deps.setdefault(h.rel, set()).add(rn)
                deps.setdefault(rn, set())
    index, low, onst, st, comp = {}, {}, set(), [], {}
    cnt = [0]
    for root in sorted(deps):
        if root in index:
            continue
        work = [(root, iter(sorted(deps[root])))]
        index[root] = low[root] = cnt[0]; cnt[0] += 1
        st.append(root); onst.add(root)
        while work:
            v, it = work[-1]
            adv = False
            for w in it:
                if w not in index:
                    index[w] = low[w] = cnt[0]; cnt[0] += 1
                    st.append(w); onst.add(w)
                    work.append((w, iter(sorted(deps[w]))))
                    adv = True
                    break
                elif w in onst:
                    low[v] = min(low[v], index[w])
            if adv:
                continue
            work.pop()
            if work:
                low[work[-1][0]] = min(low[work[-1][0]], low[v])
            if low[v] == index[v]:
                while True:
                    w = st.pop(); onst.discard(w)
                    comp[w] = index[v]
                    if w == v:
                        break
    return comp


# ---------------------------------------------------------------------------------------
# printer
# ---------------------------------------------------------------------------------------
def fmt_float(v):
    # shortest decimal with a '.' that parses back to the same binary32 and matches [0-9]+.[0-9]+
    for p in range(1, 12):
        s = "%.*f" % (p, v)
        if f32(float(s)) == v:
            return s
    return "%.12f" % v


SYM_ESC = {'"': '\\"', "\\": "\\\\", "\n": "\\n", "\t": "\\t"}


def fmt_symbol_const(s):
    return '"' + "".join(SYM_ESC.get(ch, ch) for ch in s) + '"'


def fmt_const(val, ty, text=None, paren_neg=False):
    if text is not None:
        return text
    k = ty.kind
    if k == "number":
        s = str(val)
        return "(%s)" % s if (paren_neg and val < 0) else s
    if k == "unsigned":
        return str(val)
    if k == "float":
        s = fmt_float(abs(val))
        if val < 0:
            s = "-" + s
            return "(%s)" % s if paren_neg else s
        return s
    if k == "symbol":
        return fmt_symbol_const(val)
    if k == "record":
        if val is None:
            return "nil"
        return "[" + ", ".join(fmt_const(v, ft) for v, (fn, ft) in zip(val, ty.fields)) + "]"
    if k == "adt":
        b = val[0][1:]
        fs = dict(ty.branches)[b]
        return "$%s(%s)" % (b, ", ".join(fmt_const(v, ft) for v, (fn, ft) in zip(val[1:], fs)))
    raise ValueError(k)


INFIX = {"+", "-", "*", "/", "%", "^", "band", "bor", "bxor", "bshl", "bshr", "bshru", "land", "lor", "lxor"}


def fmt_term(t):
    if isinstance(t, Var):
        return t.name
    if isinstance(t, Unnamed):
        return "_"
    if isinstance(t, Const):
        return fmt_const(t.val, t.ty, t.text, paren_neg=True)
    if isinstance(t, Counter):
        return "autoinc()"
    if isinstance(t, Functor):
        if t.op in INFIX and len(t.args) == 2:
            return "(%s %s %s)" % (fmt_term(t.args[0]), t.op, fmt_term(t.args[1]))
        if t.op == "neg":
            return "(-%s)" % fmt_term(t.args[0])
        return "%s(%s)" % (t.op, ", ".join(fmt_term(a) for a in t.args))
    if isinstance(t, UserFunctor):
        return "@%s(%s)" % (t.name, ", ".join(fmt_term(a) for a in t.args))
    if isinstance(t, Rec):
        if t.args is None:
            return "nil"
        return "[" + ", ".join(fmt_term(a) for a in t.args) + "]"
    if isinstance(t, Adt):
        return "$%s(%s)" % (t.branch, ", ".join(fmt_term(a) for a in t.args))
    if isinstance(t, As):
        return "as(%s, %s)" % (fmt_term(t.arg), t.ty.name)
    if isinstance(t, Aggr):
        body = ", ".join(fmt_lit(l) for l in t.body)
        if t.op == "count":
            return "count : { %s }" % body
        return "%s %s : { %s }" % (t.op, fmt_term(t.target), body)
    raise ValueError(t)


def fmt_atom(a):
    return "%s(%s)" % (a.rel, ", ".join(fmt_term(x) for x in a.args))


def fmt_lit(l):
    if isinstance(l, Atom):
        return fmt_atom(l)
    if isinstance(l, Neg):
        return "!" + fmt_atom(l.atom)
    if isinstance(l, Cmp):
        if l.op in ("match", "contains"):
            return "%s(%s, %s)" % (l.op, fmt_term(l.lhs), fmt_term(l.rhs))
        return "%s %s %s" % (fmt_term(l.lhs), l.op, fmt_term(l.rhs))
    if isinstance(l, Disj):
        return "( " + " ; ".join(", ".join(fmt_lit(x) for x in alt) for alt in l.alts) + " )"
    if isinstance(l, BoolLit):
        return "true" if l.val else "false"
    raise ValueError(l)


def fmt_clause(c):
    if c.subsume is not None:
        s = "%s <= %s" % (fmt_atom(c.subsume[0]), fmt_atom(c.subsume[1]))
    else:
        s = ", ".join(fmt_atom(h) for h in c.heads)
    if c.body:
        s += " :- " + ", ".join(fmt_lit(l) for l in c.body)
    s += "."
    if c.plan:
        s += "\n.plan " + ", ".join("%d:(%s)" % (v, ",".join(str(i) for i in order)) for v, order in sorted(c.plan.items()))
    return s


def fmt_program(p, facts_inline=True):
    """Returns program text. Facts of is_input relations are NOT printed (they go to files)."""
    out = []
    out.extend(p.extra_decls)
    for t in p.types:
        d = t.decl()
        if d:
            out.append(d)
    for r in p.rels:
        d = ".decl %s(%s)" % (r.name, ", ".join("%s:%s" % (n, t.name) for n, t in r.attrs))
        if r.quals:
            d += " " + " ".join(r.quals)
        if r.choice:
            d += " choice-domain " + ", ".join(k[0] if len(k) == 1 else "(" + ", ".join(k) + ")" for k in r.choice)
        out.append(d)
        if r.is_input:
            out.append(".input %s%s" % (r.name, "(%s)" % r.io_params if r.io_params else ""))
        if r.is_output:
            out.append(".output %s" % r.name)
        if r.limitsize is not None:
            out.append(".limitsize %s(n=%d)" % (r.name, r.limitsize))
        if not r.is_input:
            for f in r.facts:
                out.append("%s(%s)." % (r.name, ", ".join(fmt_const(v, t) for v, (n, t) in zip(f, r.attrs))))
    for c in p.clauses:
        out.append(fmt_clause(c))
    return "\n".join(out) + "\n"


# ---------------------------------------------------------------------------------------
# fact files and output parsing (tab separated, souffle default format)
# ---------------------------------------------------------------------------------------
def fmt_value_io(v, ty):
    k = ty.kind
    if k in ("number", "unsigned"):
        return str(v)
    if k == "float":
        return repr(v) if v == v and abs(v) != float("inf") else str(v)
    if k == "symbol":
        return v
    if k == "record":
        if v is None:
            return "nil"
        return "[" + ", ".join(fmt_value_io(x, ft) for x, (fn, ft) in zip(v, ty.fields)) + "]"
    if k == "adt":
        b = v[0][1:]
        fs = dict(ty.branches)[b]
        if not fs:
            return "$" + b
        return "$%s(%s)" % (b, ", ".join(fmt_value_io(x, ft) for x, (fn, ft) in zip(v[1:], fs)))
    raise ValueError(k)


def fmt_facts(rel):
    return "".join("\t".join(fmt_value_io(v, t) for v, (n, t) in zip(f, rel.attrs)) + "\n" for f in rel.facts)


class ParseError(Exception):
    pass


def _parse_value(s, i, ty, terms):
    """parse a value of type ty from s at i; terms = set of characters that end a symbol. returns (value, newpos)"""
    k = ty.kind
    n = len(s)
    if k in ("number", "unsigned", "float", "symbol"):
        j = i
        while j < n and s[j] not in terms:
            j += 1
        tok = s[i:j]
        if k == "symbol":
            return tok, j
        tok = tok.strip()
        try:
            if k == "float":
                return f32(float(tok)), j
            v = int(tok)
        except ValueError:
            raise ParseError("bad %s literal %r" % (k, tok))
        return v, j
    if k == "record":
        while i < n and s[i] == " ":
            i += 1
        if s.startswith("nil", i):
            return None, i + 3
        if i >= n or s[i] != "[":
            raise ParseError("record expected at %d in %r" % (i, s))
        i += 1
        vals = []
        for idx, (fn, ft) in enumerate(ty.fields):
            if idx > 0:
                if s[i:i + 2] != ", ":
                    raise ParseError("', ' expected at %d in %r" % (i, s))
                i += 2
            v, i = _parse_value(s, i, ft, {",", "]"})
            vals.append(v)
        if i >= n or s[i] != "]":
            raise ParseError("']' expected at %d in %r" % (i, s))
        return tuple(vals), i + 1
    if k == "adt":
        while i < n and s[i] == " ":
            i += 1
        if i >= n or s[i] != "$":
            raise ParseError("adt expected at %d in %r" % (i, s))
        j = i + 1
        while j < n and (s[j].isalnum() or s[j] == "_"):
            j += 1
        b = s[i + 1:j]
        fs = dict(ty.branches).get(b)
        if fs is None:
            raise ParseError("unknown branch %r" % b)
        i = j
        vals = []
        if fs:
            if i >= n or s[i] != "(":
                raise ParseError("'(' expected at %d in %r" % (i, s))
            i += 1
            for idx, (fn, ft) in enumerate(fs):
                if idx > 0:
                    if s[i:i + 2] != ", ":
                        raise ParseError("', ' expected at %d in %r" % (i, s))
                    i += 2
                v, i = _parse_value(s, i, ft, {",", ")"})
                vals.append(v)
            if i >= n or s[i] != ")":
                raise ParseError("')' expected at %d in %r" % (i, s))
            i += 1
        return ("$" + b,) + tuple(vals), i
    raise ValueError(k)


def parse_output(text, attrs):
    """parse souffle's default tab separated output into a list of value tuples (list, to detect duplicates)"""
    rows = []
    if len(attrs) == 0:
        # nullary relation: "()" if present
        for line in text.split("\n"):
            if line.strip() == "()":
                rows.append(())
        return rows
    lines = text.split("\n")
    if lines and lines[-1] == "":
        lines.pop()
    for line in lines:
        if line == "" and not (len(attrs) == 1 and attrs[0][1].kind == "symbol"):
            continue
        cols = line.split("\t")
        if len(cols) != len(attrs):
            raise ParseError("expected %d columns in %r" % (len(attrs), line))
        row = []
        for c, (n, t) in zip(cols, attrs):
            v, j = _parse_value(c, 0, t, set())
            if j != len(c):
                raise ParseError("trailing text in %r" % c)
            row.append(v)
        rows.append(tuple(row))
    return rows
