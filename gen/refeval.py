"""E3 reference evaluator: naive stratified bottom-up evaluation over the generator's AST.
No deltas, no indexes chosen by a planner, no shared code with souffle. Value semantics are
written from the language documentation (32-bit two's complement number, mod 2^32 unsigned,
IEEE binary32 float, byte strings, structural records/ADTs)."""
import math, re
from .dl import *


class Undefined(Exception):
    """evaluation left the defined value domain (division by zero, out-of-range conversion, ...)"""


class NoValue(Exception):
    """an aggregate (min/max/mean) over an empty set: the enclosing literal has no solution"""


class RefError(Exception):
    """the program is outside what the reference evaluator can handle (generator slip)"""


# ---------------------------------------------------------------------------------------
# functor semantics
# ---------------------------------------------------------------------------------------
def wrap(kind, v):
    if kind == "number":
        return s32(v)
    if kind == "unsigned":
        return u32(v)
    if kind == "float":
        r = f32(v)
        if r != r or (r == 0.0 and math.copysign(1.0, r) < 0):
            # NaN and -0.0 as relation keys: souffle stores floats by bit pattern while `=` compares them numerically;
            # the documentation leaves this open, so such cases are outside the domain the checks quantify over
            raise Undefined("NaN / -0.0 produced")
        return r
    return v


def _trunc_div(a, b):
    if b == 0:
        raise Undefined("division by zero")
    q = abs(a) // abs(b)
    return q if (a < 0) == (b < 0) else -q


def _trunc_mod(a, b):
    if b == 0:
        raise Undefined("modulo by zero")
    return a - b * _trunc_div(a, b)


def _ipow(kind, a, b):
    # documented: exponentiation; defined here for small non-negative exponents only
    if b < 0:
        raise Undefined("negative exponent")
    r = a ** b
    if kind == "number" and not (-2 ** 31 <= r < 2 ** 31):
        raise Undefined("signed overflow in ^")
    return wrap(kind, r)


def apply_functor(op, kind, a):
    """a: list of argument values. kind: overload."""
    if kind in ("number", "unsigned"):
        if op == "+":
            return wrap(kind, a[0] + a[1])
        if op == "-":
            return wrap(kind, a[0] - a[1])
        if op == "*":
            return wrap(kind, a[0] * a[1])
        if op == "/":
            if kind == "number" and a[0] == -2 ** 31 and a[1] == -1:
                raise Undefined("INT_MIN / -1")
            return wrap(kind, _trunc_div(a[0], a[1]))
        if op == "%":
            if kind == "number" and a[0] == -2 ** 31 and a[1] == -1:
                raise Undefined("INT_MIN % -1")
            return wrap(kind, _trunc_mod(a[0], a[1]))
        if op == "^":
            return _ipow(kind, a[0], a[1])
        if op == "neg":
            return wrap(kind, -a[0])
        if op == "band":
            return wrap(kind, u32(a[0]) & u32(a[1]))
        if op == "bor":
            return wrap(kind, u32(a[0]) | u32(a[1]))
        if op == "bxor":
            return wrap(kind, u32(a[0]) ^ u32(a[1]))
        if op == "bnot":
            return wrap(kind, ~u32(a[0]))
        if op == "bshl":
            return wrap(kind, u32(a[0]) << (u32(a[1]) & 31))
        if op == "bshr":
            # arithmetic for number, logical for unsigned
            return wrap(kind, a[0] >> (u32(a[1]) & 31))
        if op == "bshru":
            return wrap(kind, u32(a[0]) >> (u32(a[1]) & 31))
        if op == "land":
            return 1 if (a[0] != 0 and a[1] != 0) else 0
        if op == "lor":
            return 1 if (a[0] != 0 or a[1] != 0) else 0
        if op == "lxor":
            return 1 if ((a[0] != 0) != (a[1] != 0)) else 0
        if op == "lnot":
            return 1 if a[0] == 0 else 0
        if op == "min":
            return min(a)
        if op == "max":
            return max(a)
    if kind == "float":
        if op == "+":
            return f32(a[0] + a[1])
        if op == "-":
            return f32(a[0] - a[1])
        if op == "*":
            return f32(a[0] * a[1])
        if op == "/":
            if a[1] == 0:
                raise Undefined("float division by zero")
            return f32(a[0] / a[1])
        if op == "neg":
            return f32(-a[0])
        if op == "min":
            return min(a)
        if op == "max":
            return max(a)
    if kind == "symbol":
        if op == "cat":
            return "".join(a)
        if op == "strlen":
            return len(a[0].encode("utf-8", "surrogateescape"))
        if op == "substr":
            s, i, n = a
            b = s.encode("utf-8", "surrogateescape")
            if i < 0 or n < 0 or i > len(b):
                raise Undefined("substr out of range")
            return b[i:i + n].decode("utf-8", "surrogateescape")
        if op == "min":
            return min(a)
        if op == "max":
            return max(a)
        if op == "to_number":
            if not re.fullmatch(r"-?[0-9]+", a[0]) or not (-2 ** 31 <= int(a[0]) < 2 ** 31):
                raise Undefined("to_number of a non-numeral")
            return int(a[0])
    if op == "to_string":
        if kind == "number" or kind == "unsigned":
            return str(a[0])
        raise Undefined("to_string of non-integer")
    if op == "itof" or (op == "to_float" and kind == "number"):
        return f32(float(a[0]))
    if op == "utof" or (op == "to_float" and kind == "unsigned"):
        return f32(float(a[0]))
    if op == "itou" or (op == "to_unsigned" and kind == "number"):
        return u32(a[0])
    if op == "utoi" or (op == "to_number" and kind == "unsigned"):
        return s32(a[0])
    if op == "ftoi" or (op == "to_number" and kind == "float"):
        t = math.trunc(a[0])
        if not (-2 ** 31 <= t < 2 ** 31):
            raise Undefined("ftoi out of range")
        return t
    if op == "ftou" or (op == "to_unsigned" and kind == "float"):
        t = math.trunc(a[0])
        if not (0 <= t < 2 ** 32):
            raise Undefined("ftou out of range")
        return t
    raise RefError("functor %s/%s not modelled" % (op, kind))


def compare(op, kind, a, b):
    if op == "=":
        return a == b
    if op == "!=":
        return a != b
    if op == "<":
        return a < b
    if op == "<=":
        return a <= b
    if op == ">":
        return a > b
    if op == ">=":
        return a >= b
    if op == "contains":
        return a in b
    if op == "match":
        try:
            return re.fullmatch(a, b) is not None
        except re.error:
            raise Undefined("bad regex")
    raise RefError("constraint %s not modelled" % op)


# ---------------------------------------------------------------------------------------
# evaluator
# ---------------------------------------------------------------------------------------
class Evaluator:
    def __init__(self, prog, user_functors=None, max_tuples=200000, max_rounds=10000):
        self.p = prog
        self.rels = {r.name: r for r in prog.rels}
        self.db = {r.name: set() for r in prog.rels}
        self.user_functors = user_functors or {}
        self.max_tuples = max_tuples
        self.max_rounds = max_rounds
        self.first_round = {}      # (rel, tuple) -> round within its stratum (1-based; facts/base = 0)
        self.rounds = {}           # scc index -> number of rounds until fixpoint
        self.undefined = False     # some evaluation left the defined domain (case must be discarded)
        self.idx_cache = {}
        self.derivations = 0
        self.steps = 0
        self.max_steps = 1000000
        self._prep()

    # --- preparation: injected variables of aggregates, strata ---
    def _prep(self):
        for c in self.p.clauses:
            outer = set()
            for h in c.heads:
                for a in h.args:
                    term_vars(a, outer, into_aggr=False)
            for l in c.body:
                lit_vars(l, outer, into_aggr=False)
            if c.subsume:
                for at in c.subsume:
                    for a in at.args:
                        term_vars(a, outer, into_aggr=False)
            self._mark_aggrs(c, outer)
        self._strata()

    def _mark_aggrs(self, c, outer):
        def visit(t, scope):
            if isinstance(t, Aggr):
                inner = set()
                if t.target is not None:
                    term_vars(t.target, inner, into_aggr=False)
                for l in t.body:
                    lit_vars(l, inner, into_aggr=False)
                t.injected = inner & scope
                # nested aggregates see this aggregate's variables as their scope
                for l in t.body:
                    walk_lit_terms_shallow(l, lambda x: visit(x, scope | inner))
                if t.target is not None:
                    walk_terms_shallow(t.target, lambda x: visit(x, scope | inner))

        for h in c.heads:
            for a in h.args:
                walk_terms_shallow(a, lambda x: visit(x, outer))
        for l in c.body:
            walk_lit_terms_shallow(l, lambda x: visit(x, outer))

    def _strata(self):
        names = [r.name for r in self.p.rels]
        deps = {n: set() for n in names}
        for c in self.p.clauses:
            for h in (c.heads if not c.subsume else [c.subsume[0]]):
                for (r, pol) in clause_atoms(c):
                    deps[h.rel].add(r)
        # Tarjan SCC
        index, low, onstack, stack, sccs = {}, {}, set(), [], []
        counter = [0]

        def strong(v):
            work = [(v, iter(sorted(deps[v])))]
            index[v] = low[v] = counter[0]
            counter[0] += 1
            stack.append(v)
            onstack.add(v)
            while work:
                node, it = work[-1]
                adv = False
                for w in it:
                    if w not in index:
                        index[w] = low[w] = counter[0]
                        counter[0] += 1
                        stack.append(w)
                        onstack.add(w)
                        work.append((w, iter(sorted(deps[w]))))
                        adv = True
                        break
                    elif w in onstack:
                        low[node] = min(low[node], index[w])
                if adv:
                    continue
                work.pop()
                if work:
                    parent = work[-1][0]
                    low[parent] = min(low[parent], low[node])
                if low[node] == index[node]:
                    comp = []
                    while True:
                        w = stack.pop()
                        onstack.discard(w)
                        comp.append(w)
                        if w == node:
                            break
                    sccs.append(comp)

        for n in names:
            if n not in index:
                strong(n)
        self.sccs = sccs   # Tarjan emits SCCs in reverse topological order of the condensation = dependencies first
        self.scc_of = {}
        for i, comp in enumerate(sccs):
            for n in comp:
                self.scc_of[n] = i
        self.deps = deps

    # --- term evaluation ---
    def ev(self, t, env):
        if isinstance(t, Var):
            return env[t.name]
        if isinstance(t, Const):
            return t.val
        if isinstance(t, Functor):
            args = [self.ev(a, env) for a in t.args]
            try:
                r = apply_functor(t.op, t.kind, args)
                if isinstance(r, float) and (r != r or (r == 0.0 and math.copysign(1.0, r) < 0)):
                    raise Undefined("NaN / -0.0 produced")      # see wrap()
                return r
            except Undefined:
                self.undefined = True
                raise
        if isinstance(t, UserFunctor):
            args = [self.ev(a, env) for a in t.args]
            return self.user_functors[t.name](*args)
        if isinstance(t, Rec):
            if t.args is None:
                return None
            return tuple(self.ev(a, env) for a in t.args)
        if isinstance(t, Adt):
            return ("$" + t.branch,) + tuple(self.ev(a, env) for a in t.args)
        if isinstance(t, As):
            v = self.ev(t.arg, env)
            return self.cast(v, t.fromkind, t.ty.kind)
        if isinstance(t, Aggr):
            return self.ev_aggr(t, env)
        raise RefError("cannot evaluate %r" % (t,))

    def cast(self, v, fk, tk):
        # as(x, T) reinterprets the 32-bit pattern
        if fk == tk or fk in ("symbol", "record", "adt") or tk in ("symbol", "record", "adt"):
            if fk != tk:
                raise RefError("as() between %s and %s not modelled" % (fk, tk))
            return v
        bits = u32(v) if fk in ("number", "unsigned") else f32bits(v)
        if tk == "number":
            return s32(bits)
        if tk == "unsigned":
            return bits
        return bits_f32(bits)

    def evaluable(self, t, env):
        if isinstance(t, Var):
            return t.name in env
        if isinstance(t, Unnamed):
            return False
        if isinstance(t, (Const, Counter)):
            return True
        if isinstance(t, (Functor, UserFunctor)):
            return all(self.evaluable(a, env) for a in t.args)
        if isinstance(t, (Rec, Adt)):
            return t.args is None or all(self.evaluable(a, env) for a in t.args)
        if isinstance(t, As):
            return self.evaluable(t.arg, env)
        if isinstance(t, Aggr):
            return all(v in env for v in t.injected)
        return False

    def ev_aggr(self, t, env):
        sub = {v: env[v] for v in t.injected}
        vals = []
        seen = set()
        locs = None
        for e in self.solve(list(t.body), sub):
            if locs is None:
                locs = sorted(k for k in e.keys())
            key = tuple(e.get(k) for k in sorted(e.keys()))
            if key in seen:
                continue
            seen.add(key)
            if t.op != "count":
                vals.append(self.ev(t.target, e))
        if t.op == "count":
            return len(seen)
        if t.op == "sum":
            acc = 0
            if t.kind == "float":
                # order dependent in general; the generator keeps float sums exact
                for v in vals:
                    acc = f32(acc + v)
                return acc
            return wrap(t.kind, sum(vals))
        if not vals:
            raise NoValue()
        if t.op == "min":
            return min(vals)
        if t.op == "max":
            return max(vals)
        if t.op == "mean":
            acc = 0.0
            for v in vals:
                acc = f32(acc + v)
            return f32(acc / f32(float(len(vals))))
        raise RefError("aggregate %s" % t.op)

    # --- pattern matching ---
    def match(self, t, v, env):
        """returns env (possibly extended copy) or None"""
        if isinstance(t, Var):
            if t.name in env:
                return env if env[t.name] == v else None
            e = dict(env)
            e[t.name] = v
            return e
        if isinstance(t, Unnamed):
            return env
        if isinstance(t, Const):
            return env if t.val == v else None
        if isinstance(t, Rec):
            if t.args is None:
                return env if v is None else None
            if v is None or len(v) != len(t.args):
                return None
            for a, x in zip(t.args, v):
                env = self.match(a, x, env)
                if env is None:
                    return None
            return env
        if isinstance(t, Adt):
            if v[0] != "$" + t.branch:
                return None
            for a, x in zip(t.args, v[1:]):
                env = self.match(a, x, env)
                if env is None:
                    return None
            return env
        # functor / cast / aggregate: must be evaluable
        try:
            x = self.ev(t, env)
        except NoValue:
            return None
        return env if x == v else None

    def pattern_ready(self, t, env):
        """can t be matched against a value under env (all non-pattern sub-terms evaluable)?"""
        if isinstance(t, (Var, Unnamed, Const)):
            return True
        if isinstance(t, (Rec, Adt)):
            return t.args is None or all(self.pattern_ready(a, env) for a in t.args)
        return self.evaluable(t, env)

    # --- literal scheduling / solving ---
    def lit_ready(self, l, env):
        if isinstance(l, Atom):
            return all(self.pattern_ready(a, env) for a in l.args)
        if isinstance(l, Neg):
            return all(isinstance(a, Unnamed) or self.evaluable(a, env) for a in l.atom.args)
        if isinstance(l, Cmp):
            if l.op == "=":
                if self.evaluable(l.lhs, env) and self.pattern_ready(l.rhs, env):
                    return True
                if self.evaluable(l.rhs, env) and self.pattern_ready(l.lhs, env):
                    return True
                if isinstance(l.rhs, Functor) and l.rhs.op == "range" and all(self.evaluable(a, env) for a in l.rhs.args):
                    return True
                return False
            return self.evaluable(l.lhs, env) and self.evaluable(l.rhs, env)
        if isinstance(l, Disj):
            vs = set()
            lit_vars(l, vs, into_aggr=False)
            return all(v in env for v in vs)
        if isinstance(l, BoolLit):
            return True
        return False

    def lit_cost(self, l):
        if isinstance(l, (Cmp, Neg, BoolLit, Disj)):
            return 0
        return 1

    def solve(self, lits, env):
        """generator of environments satisfying all literals"""
        if not lits:
            yield env
            return
        best = None
        for i, l in enumerate(lits):
            if self.lit_ready(l, env):
                c = self.lit_cost(l)
                if best is None or c < best[0]:
                    best = (c, i)
                    if c == 0:
                        break
        if best is None:
            raise RefError("no literal is ready: ungrounded clause? " + "; ".join(fmt_lit(x) for x in lits))
        i = best[1]
        l = lits[i]
        rest = lits[:i] + lits[i + 1:]
        for e in self.solve_lit(l, env):
            yield from self.solve(rest, e)

    def rel_index(self, name, positions):
        key = (name, positions)
        idx = self.idx_cache.get(key)
        if idx is None:
            idx = {}
            for t in self.db[name]:
                idx.setdefault(tuple(t[p] for p in positions), []).append(t)
            self.idx_cache[key] = idx
        return idx

    def solve_lit(self, l, env):
        self.steps += 1
        if self.steps > self.max_steps:
            # deterministic work budget (not a clock): the case is too expensive for the naive model and is discarded
            raise Undefined("reference evaluation exceeds %d steps" % self.max_steps)
        if isinstance(l, Atom):
            # bound simple positions -> index lookup
            pos, key = [], []
            for i, a in enumerate(l.args):
                if isinstance(a, Const):
                    pos.append(i)
                    key.append(a.val)
                elif isinstance(a, Var) and a.name in env:
                    pos.append(i)
                    key.append(env[a.name])
            if pos:
                cands = self.rel_index(l.rel, tuple(pos)).get(tuple(key), ())
            else:
                cands = self.db[l.rel]
            for t in cands:
                e = env
                for a, v in zip(l.args, t):
                    e = self.match(a, v, e)
                    if e is None:
                        break
                if e is not None:
                    yield e
            return
        if isinstance(l, Neg):
            pos, key = [], []
            for i, a in enumerate(l.atom.args):
                if not isinstance(a, Unnamed):
                    pos.append(i)
                    try:
                        key.append(self.ev(a, env))
                    except NoValue:
                        return
            if pos:
                found = tuple(key) in self.rel_index(l.atom.rel, tuple(pos))
            else:
                found = len(self.db[l.atom.rel]) > 0
            if not found:
                yield env
            return
        if isinstance(l, Cmp):
            try:
                if l.op == "=":
                    if isinstance(l.rhs, Functor) and l.rhs.op == "range":
                        for v in self.range_values(l.rhs, env):
                            e = self.match(l.lhs, v, env)
                            if e is not None:
                                yield e
                        return
                    if self.evaluable(l.lhs, env):
                        v = self.ev(l.lhs, env)
                        e = self.match(l.rhs, v, env)
                    else:
                        v = self.ev(l.rhs, env)
                        e = self.match(l.lhs, v, env)
                    if e is not None:
                        yield e
                    return
                a = self.ev(l.lhs, env)
                b = self.ev(l.rhs, env)
            except NoValue:
                return
            if compare(l.op, l.kind, a, b):
                yield env
            return
        if isinstance(l, Disj):
            for alt in l.alts:
                ok = False
                for _ in self.solve(list(alt), env):
                    ok = True
                    break
                if ok:
                    yield env
                    return
            return
        if isinstance(l, BoolLit):
            if l.val:
                yield env
            return
        raise RefError("literal")

    def range_values(self, f, env):
        args = [self.ev(a, env) for a in f.args]
        kind = f.kind
        a, b = args[0], args[1]
        if len(args) == 3:
            s = args[2]
        else:
            s = 1 if a <= b else -1
        out = []
        if s == 0:
            return out
        n = 0
        x = a
        if s > 0:
            while x < b:
                out.append(wrap(kind, x))
                x += s
                n += 1
                if n > 100000:
                    raise RefError("range too large")
        else:
            while x > b:
                out.append(wrap(kind, x))
                x += s
                n += 1
                if n > 100000:
                    raise RefError("range too large")
        return out

    # --- clause evaluation: one-step consequences ---
    def consequences(self, c):
        """set of (relname, tuple) derivable by clause c from the current database"""
        out = set()
        for env in self.solve(list(c.body), {}):
            self.derivations += 1
            for h in c.heads:
                try:
                    t = tuple(self.ev(a, env) for a in h.args)
                except NoValue:
                    continue
                out.add((h.rel, t))
        return out

    # --- eqrel closure ---
    @staticmethod
    def eq_closure(pairs):
        parent = {}

        def find(x):
            while parent[x] != x:
                parent[x] = parent[parent[x]]
                x = parent[x]
            return x

        for a, b in pairs:
            parent.setdefault(a, a)
            parent.setdefault(b, b)
            ra, rb = find(a), find(b)
            if ra != rb:
                parent[ra] = rb
        classes = {}
        for x in parent:
            classes.setdefault(find(x), []).append(x)
        out = set()
        for cl in classes.values():
            for a in cl:
                for b in cl:
                    out.add((a, b))
        return out

    # --- main loop ---
    def load_facts(self):
        for r in self.p.rels:
            for f in r.facts:
                self.db[r.name].add(tuple(f))
                self.first_round[(r.name, tuple(f))] = 0
            if "eqrel" in r.quals:
                self.db[r.name] = self.eq_closure(self.db[r.name])

    def run(self):
        self.load_facts()
        by_scc = {}
        for c in self.p.clauses:
            if c.subsume:
                continue
            sccs = set(self.scc_of[h.rel] for h in c.heads)
            # a multi-head clause is evaluated with the earliest SCC that contains one of its heads and again
            # with the later ones (its body cannot depend on later SCCs)
            for s in sccs:
                by_scc.setdefault(s, []).append(c)
        for si, comp in enumerate(self.sccs):
            clauses = by_scc.get(si, [])
            compset = set(comp)
            rnd = 0
            while True:
                rnd += 1
                if rnd > self.max_rounds:
                    raise RefError("no fixpoint within %d rounds" % self.max_rounds)
                self.idx_cache = {}
                new = set()
                for c in clauses:
                    for (rn, t) in self.consequences(c):
                        if rn in compset and t not in self.db[rn]:
                            new.add((rn, t))
                if not new:
                    break
                for (rn, t) in new:
                    self.db[rn].add(t)
                    self.first_round.setdefault((rn, t), rnd)
                for rn in comp:
                    if "eqrel" in self.rels[rn].quals:
                        before = len(self.db[rn])
                        self.db[rn] = self.eq_closure(self.db[rn])
                        for t in self.db[rn]:
                            self.first_round.setdefault((rn, t), rnd)
                if sum(len(self.db[rn]) for rn in comp) > self.max_tuples:
                    raise RefError("relation too large")
            self.rounds[si] = rnd - 1
            self.idx_cache = {}
        return self.db


def walk_terms_shallow(t, fn):
    """like walk_terms but does not descend into aggregates (fn decides)"""
    fn(t)
    if isinstance(t, (Functor, UserFunctor)):
        for a in t.args:
            walk_terms_shallow(a, fn)
    elif isinstance(t, (Rec, Adt)):
        if t.args is not None:
            for a in t.args:
                walk_terms_shallow(a, fn)
    elif isinstance(t, As):
        walk_terms_shallow(t.arg, fn)


def walk_lit_terms_shallow(l, fn):
    if isinstance(l, Atom):
        for a in l.args:
            walk_terms_shallow(a, fn)
    elif isinstance(l, Neg):
        walk_lit_terms_shallow(l.atom, fn)
    elif isinstance(l, Cmp):
        walk_terms_shallow(l.lhs, fn)
        walk_terms_shallow(l.rhs, fn)
    elif isinstance(l, Disj):
        for alt in l.alts:
            for x in alt:
                walk_lit_terms_shallow(x, fn)
