"""C11 Subsumption leaves exactly the non-dominated derivable tuples."""
import os, random, re
from vlib import runner
from vlib.core import Result
from . import progcommon as pc, tmpl

RULE = ("case = one template program with a subsumptive clause whose dominance condition is a pure constraint forming a strict "
        "partial order on distinct tuples: bounded shortest paths (recursive; cost column compared with < or <=), "
        "lexicographic two-cost Pareto fronts (recursive), interval containment and per-key maxima (non-recursive), grids and "
        "count-downs with hundreds of tuples and whole generations erased at once (multi-level deletable B-tree), with ties "
        "and chains of dominance, btree_delete or default storage; run by the real interpreter at -j1, -j4 and -j8. oracle, with "
        "U = all tuples derivable without subsumption (computed in Python): (1) no final tuple is dominated by another final "
        "tuple; (2) final is a subset of U; (3) the result is the same at every thread count; (4) for these monotone-cost "
        "programs final = the non-dominated tuples of U. non-trivial = distinct program in which subsumption removed at least "
        "one tuple of U.")


def program(seed):
    rng = random.Random(seed)
    shape = rng.choice(["sssp", "apsp", "apsp-nonlinear", "pareto", "interval", "keymax", "grid", "countdown", "keymax-large"])
    q = rng.choice(["btree_delete", "btree_delete", ""])
    o = []
    spec = dict(shape=shape)
    if shape in ("sssp", "apsp", "apsp-nonlinear", "pareto"):
        n = rng.randint(3, 9)
        bound = rng.choice([12, 20, 30])
        if shape == "pareto":
            edges = sorted({(rng.randrange(n), rng.randrange(n), rng.randint(1, 4), rng.randint(1, 4)) for _ in range(rng.randint(n, 3 * n))})
            o += [".decl edge(a:number, b:number, w:number, v:number)"] + ["edge(%d, %d, %d, %d)." % e for e in edges]
            o += [".decl pf(a:number, b:number, c:number, d:number) %s" % q, ".output pf",
                  "pf(a, b, w, v) :- edge(a, b, w, v).",
                  "pf(a, c, x + w, y + v) :- pf(a, b, x, y), edge(b, c, w, v), x + w < %d, y + v < %d." % (bound, bound),
                  "pf(a, b, c1, d1) <= pf(a, b, c2, d2) :- c2 <= c1, d2 <= d1."]
            # U: all (a,b,c,d) with c,d < bound
            U = set((a, b, w, v) for (a, b, w, v) in edges)
            frontier = set(U)
            while frontier:
                new = set()
                for (a, b, x, y) in frontier:
                    for (b2, c, w, v) in edges:
                        if b2 == b and x + w < bound and y + v < bound:
                            t = (a, c, x + w, y + v)
                            if t not in U:
                                new.add(t)
                U |= new
                frontier = new
            dom = lambda t, u: t != u and t[0] == u[0] and t[1] == u[1] and u[2] <= t[2] and u[3] <= t[3]   # u dominates t
            spec.update(rel="pf", U=U, dom=dom)
        else:
            edges = sorted({(rng.randrange(n), rng.randrange(n), rng.randint(1, 5)) for _ in range(rng.randint(n, 3 * n))})
            op = rng.choice(["<", "<="])
            o += [".decl edge(a:number, b:number, w:number)"] + ["edge(%d, %d, %d)." % e for e in edges]
            if shape == "sssp":
                src = rng.randrange(n)
                o += [".decl dist(b:number, d:number) %s" % q, ".output dist", "dist(%d, 0)." % src,
                      "dist(c, d + w) :- dist(b, d), edge(b, c, w), d + w < %d." % bound,
                      "dist(b, d1) <= dist(b, d2) :- d2 %s d1." % op]
                U = {(src, 0)}
                frontier = set(U)
                while frontier:
                    new = set()
                    for (b, dd) in frontier:
                        for (b2, c, w) in edges:
                            if b2 == b and dd + w < bound and (c, dd + w) not in U:
                                new.add((c, dd + w))
                    U |= new
                    frontier = new
                dom = lambda t, u: t != u and t[0] == u[0] and u[1] <= t[1]
                spec.update(rel="dist", U=U, dom=dom)
            else:
                rec_rule = ("dist(a, c, d + w) :- dist(a, b, d), edge(b, c, w), d + w < %d." % bound) if shape == "apsp" else \
                    ("dist(a, c, d1 + d2) :- dist(a, b, d1), dist(b, c, d2), d1 + d2 < %d." % bound)      # two recursive atoms: delta versions 0 and 1
                o += [".decl dist(a:number, b:number, d:number) %s" % q, ".output dist", "dist(a, b, w) :- edge(a, b, w).", rec_rule,
                      "dist(a, b, d1) <= dist(a, b, d2) :- d2 %s d1." % op]
                U = set(edges)
                frontier = set(U)
                while frontier:
                    new = set()
                    for (a, b, dd) in frontier:
                        for (b2, c, w) in edges:
                            if b2 == b and dd + w < bound and (a, c, dd + w) not in U:
                                new.add((a, c, dd + w))
                    U |= new
                    frontier = new
                dom = lambda t, u: t != u and t[0] == u[0] and t[1] == u[1] and u[2] <= t[2]
                spec.update(rel="dist", U=U, dom=dom)
    elif shape == "grid":
        # many keys, many candidates per key: hundreds of tuples, long runs of neighbouring tuples erased (multi-level deletable B-tree:
        # merges, borrowing from either sibling, root collapse)
        nx, nc = rng.randint(4, 40), rng.randint(2, 14)
        lo = rng.randint(-3, 3)
        o += [".decl n(x:number)", "n(x) :- x = range(0, %d)." % nx, ".decl c(x:number)", "c(x) :- x = range(%d, %d)." % (lo, lo + nc)]
        op = rng.choice(["<", "<=", ">"])
        o += [".decl g(x:number, c:number) %s" % q, ".output g", "g(x, v) :- n(x), c(v), (x + v) % 7 != 3.", "g(x, c1) <= g(x, c2) :- c2 " + op + " c1."]
        U = {(x, v) for x in range(nx) for v in range(lo, lo + nc) if (x + v) % 7 != 3}
        dom = (lambda t, u: t != u and t[0] == u[0] and u[1] >= t[1]) if op == ">" else (lambda t, u: t != u and t[0] == u[0] and u[1] <= t[1])
        spec.update(rel="g", U=U, dom=dom)
    elif shape == "countdown":
        # recursive: every new tuple dominates the previous one of its key, so each iteration erases a whole generation
        nx, top = rng.randint(5, 120), rng.randint(3, 30)
        o += [".decl n(x:number)", "n(x) :- x = range(0, %d)." % nx]
        o += [".decl cd(x:number, c:number) %s" % q, ".output cd", "cd(x, %d + (x %% 3)) :- n(x)." % top, "cd(x, c - 1) :- cd(x, c), c > 0.",
              "cd(x, c1) <= cd(x, c2) :- c2 < c1."]
        U = {(x, v) for x in range(nx) for v in range(0, top + (x % 3) + 1)}
        dom = lambda t, u: t != u and t[0] == u[0] and u[1] <= t[1]
        spec.update(rel="cd", U=U, dom=dom)
    elif shape == "keymax-large":
        rows = sorted({(rng.randint(0, 60), rng.randint(-50, 200)) for _ in range(rng.randint(100, 600))})
        o += [".decl raw(k:number, v:number)"] + ["raw(%d, %d)." % t for t in rows]
        o += [".decl best(k:number, v:number) %s" % q, ".output best", "best(k, v) :- raw(k, v).", "best(k, v1) <= best(k, v2) :- v1 < v2."]
        dom = lambda t, u: t != u and t[0] == u[0] and t[1] <= u[1]
        spec.update(rel="best", U=set(rows), dom=dom)
    elif shape == "interval":
        ivs = sorted({tuple(sorted((rng.randint(0, 12), rng.randint(0, 12)))) for _ in range(rng.randint(2, 25))})
        o += [".decl raw(lo:number, hi:number)"] + ["raw(%d, %d)." % t for t in ivs]
        o += [".decl iv(lo:number, hi:number) %s" % q, ".output iv", "iv(l, h) :- raw(l, h).",
              "iv(l1, h1) <= iv(l2, h2) :- l2 <= l1, h1 <= h2."]
        dom = lambda t, u: t != u and u[0] <= t[0] and t[1] <= u[1]
        spec.update(rel="iv", U=set(ivs), dom=dom)
    else:
        rows = sorted({(rng.randint(0, 5), rng.randint(-5, 20)) for _ in range(rng.randint(2, 30))})
        o += [".decl raw(k:number, v:number)"] + ["raw(%d, %d)." % t for t in rows]
        o += [".decl best(k:number, v:number) %s" % q, ".output best", "best(k, v) :- raw(k, v).",
              "best(k, v1) <= best(k, v2) :- v1 %s v2." % rng.choice(["<", "<="])]
        dom = lambda t, u: t != u and t[0] == u[0] and t[1] <= u[1]
        spec.update(rel="best", U=set(rows), dom=dom)
    return "\n".join(o) + "\n", spec


def worker(arg):
    seed, souffle = arg[0], arg[1]
    compiled_mode = len(arg) > 2 and arg[2]
    text, spec = program(seed)
    rec = dict(seed=seed, hash=runner.prog_hash(text), features=["subsumption-" + spec["shape"]], counts={})
    d = tmpl.setup_case("C11", seed, text)
    rec["dir"] = d
    U, dom, rel = spec["U"], spec["dom"], spec["rel"]
    minimal = {t for t in U if not any(dom(t, u) for u in U)}
    runfn = tmpl.make_runner(souffle, d, compiled_mode)
    if runfn is None:
        rec.update(status="skip", reason="compile-failed (C02)")
        return rec
    if compiled_mode:
        rec["features"] = list(rec["features"]) + ["compiled"]
        rec["counts"]["compiled_cases"] = 1
    viols = []
    results = {}
    for j in (1, 4, 8):
        od = "j%d" % j
        r, ck = runfn(j, od, None)
        rec["counts"]["runs"] = rec["counts"].get("runs", 0) + 1
        if ck is not None:
            viols.append(("crash:" + ck, "-j%d died (%s)\n%s\n%s" % (j, ck, r.err[-2000:], text)))
            continue
        if r.rc != 0:
            viols.append(("error-exit", "-j%d exited with %s\n%s\n%s" % (j, r.rc, "\n".join(l for l in r.err.split("\n") if l.startswith("Error"))[:800], text)))
            continue
        rows = tmpl.read_rows(d, rel, od)
        if rows is None:
            viols.append(("output:missing", "-j%d: no output for %s\n%s" % (j, rel, text)))
            continue
        F = set(rows)
        results[j] = F
        if len(F) != len(rows):
            viols.append(("duplicate-tuples", "-j%d: duplicate tuples in %s\n%s" % (j, rel, text)))
        dominated = [(t, u) for t in F for u in F if dom(t, u)]
        if dominated:
            viols.append(("dominated-tuple-present:" + spec["shape"], "-j%d: final tuple %s is dominated by final tuple %s\n%s" % (j, dominated[0][0], dominated[0][1], text)))
        if not F <= U:
            viols.append(("not-derivable:" + spec["shape"], "-j%d: final tuples not derivable without subsumption: %s\n%s" % (j, sorted(F - U)[:4], text)))
        if F != minimal:
            viols.append(("not-the-minimal-set:" + spec["shape"], "-j%d: final differs from the non-dominated tuples of the unsubsumed result: only souffle %s, only expected %s\n%s" % (
                j, sorted(F - minimal)[:4], sorted(minimal - F)[:4], text)))
    if len({tuple(sorted(v)) for v in results.values()}) > 1:
        viols.append(("thread-count-dependent:" + spec["shape"], "the result differs between thread counts: %s\n%s" % ({j: len(v) for j, v in results.items()}, text)))
    rec["counts"]["tuples_removed_by_subsumption"] = len(U) - len(minimal)
    rec["nontrivial"] = len(U) > len(minimal)
    if viols:
        seen, uniq = set(), []
        for k, dtl in viols:
            if k not in seen:
                seen.add(k)
                uniq.append((k, dtl))
        rec.update(status="viol", viols=uniq[:4], program=text)
    else:
        rec.update(status="ok", sample=({"program": text[:1500]} if seed % 40 == 0 else None))
    return rec


def check(tier, seed):
    t = pc.trees("plain", "san")
    n = 600 if tier == "quick" else 2400
    nsan = 40 if tier == "quick" else 160
    res = Result("exploration")
    res.rule = RULE
    base = seed * 1000000 + (0 if tier == "quick" else 50000) + 110000
    ncomp = 4 if tier == "quick" else 16
    recs = runner.pmap(worker, [(base + 900000 + i, t["plain"], True) for i in range(ncomp)] + [(base + i, t["plain"]) for i in range(n)] +
                       [(base + n + i, t["san"]) for i in range(nsan)], nproc=8)
    pc.collect("C11", recs, res)
    res.min_nontrivial = n // 4
    res.assumptions = ["interpreter, plus a compile-bound sample of executables (4 quick / 48 thorough)", "template programs (5 shapes) with random facts; dominance conditions are pure constraints"]
    return res
