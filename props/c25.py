"""C25 B-tree sets behave as sorted sets under concurrent insertion (souffle::btree_set)."""
from .dscommon import run_ds

RULE = ("history = 2-4 client threads inserting per-thread key sequences (random, ascending, descending, heavy duplicates, disjoint "
        "ranges; with and without operation_hints) into one real btree_set whose nodes hold 3 keys (constant splits) - int keys, "
        "2- and 3-column tuples, linear and binary search, and the default block size; serial flavour: cooperative scheduler "
        "pre-empting at every load/store/edge of BTree.h and ParallelUtil.h; free flavours: real threads (-O2, TSan, ASan+UBSan). "
        "After quiescence: each distinct key reported success exactly once; iteration strictly ascending and equal to the union; "
        "check() true; size, contains, find, lower_bound, upper_bound (with and without hints) and getChunks(1..50) agree with a "
        "std::set model. distinct_nontrivial = distinct serial schedules (hash of the decision sequence) + free-mode histories.")


def check(tier, seed):
    q = tier == "quick"
    plans = []
    for cfg, n in ((0, 12000), (2, 8000), (3, 4000), (4, 6000), (5, 3000)):
        plans.append(dict(flavour="serial", label="serial-cfg%d" % cfg, args=["--cfg", cfg, "--threads", 3, "--ops", 12, "--range", 40], total=n if q else n * 10))
    # longer histories: trees of height >= 3 (inner nodes below inner nodes), so that splits propagating through two levels race
    plans.append(dict(flavour="serial", label="serial-deep", args=["--cfg", 0, "--threads", 3, "--ops", 40, "--range", 400, "--fixed", "--budget", 12000000], total=1500 if q else 15000))
    plans.append(dict(flavour="serial", label="serial-4threads", args=["--cfg", 0, "--threads", 4, "--ops", 10, "--range", 24, "--budget", 6000000], total=4000 if q else 40000))
    plans.append(dict(flavour="free", label="free", args=["--cfg", 0, "--threads", 8, "--ops", 4000, "--range", 6000, "--fixed"], total=48 if q else 480, chunk=3, timeout=300))
    plans.append(dict(flavour="free", label="free-tuples", args=["--cfg", 2, "--threads", 8, "--ops", 3000, "--range", 3000, "--fixed"], total=32 if q else 320, chunk=2, timeout=300))
    plans.append(dict(flavour="tsan", label="free-tsan", args=["--cfg", 0, "--threads", 6, "--ops", 1500, "--range", 2000, "--fixed"], total=12 if q else 120, chunk=1, timeout=900))
    plans.append(dict(flavour="asan", label="free-asan", args=["--cfg", 2, "--threads", 6, "--ops", 1500, "--range", 2000, "--fixed"], total=12 if q else 120, chunk=1, timeout=900))
    res = run_ds("C25", "h_btree", tier, seed, plans, RULE)
    res.assumptions = ["x86-TSO hardware; weak-memory reorderings are visible only to ThreadSanitizer (write/write reports are violations, the "
                       "optimistic read-vs-write pattern of the B-tree is a diagnostic)",
                       "random-walk schedules of the real code, not exhaustive enumeration of interleavings"]
    return res
