"""C30 The optimistic read-write lock protocol is safe (souffle::OptimisticReadWriteLock)."""
from .dscommon import run_ds

RULE = ("history = 2-3 (serial) / 8 (free) clients x random read / write / try-write / upgrade operations, each write "
        "phase committing a unique value to a 3-word payload or aborting, on the real OptimisticReadWriteLock; monitors: "
        "shadow writer count never 2; validate()==true only for an untorn snapshot equal to the committed value (taken in "
        "one non-pre-emptible section with validate); validate()==false is a violation when no committing phase began "
        "since before the lease was requested and no client holds or attempts the lock (an abort must restore the version); "
        "try_upgrade_to_write success on a changed payload; step budget = bounded progress; lock free and payload == last "
        "commit after quiescence. distinct_nontrivial = distinct serial schedules + contended free-mode histories.")


def check(tier, seed):
    q = tier == "quick"
    plans = [
        dict(flavour="serial", label="serial-3x6", args=["--threads", 3, "--ops", 6], total=200000 if q else 5000000),
        dict(flavour="serial", label="serial-4x12", args=["--threads", 4, "--ops", 12, "--budget", 1000000], total=40000 if q else 1000000),
        dict(flavour="free", label="free", args=["--threads", 8, "--ops", 20000, "--fixed"], total=32 if q else 1000, chunk=2, timeout=600),
        dict(flavour="tsan", label="free-tsan-plain-payload", args=["--threads", 6, "--ops", 3000, "--fixed"], total=16 if q else 400, chunk=1, timeout=900),
        dict(flavour="asan", label="free-asan", args=["--threads", 6, "--ops", 5000, "--fixed"], total=16 if q else 400, chunk=1, timeout=900),
    ]
    res = run_ds("C30", "h_orw", tier, seed, plans, RULE)
    res.assumptions = ["'no livelock' is restated as bounded progress: every history finishes within the step budget",
                       "random-walk schedules of the real lock, not the exhaustive model the quantifier also mentions",
                       "x86-TSO; weak-memory effects only via ThreadSanitizer's happens-before model"]
    return res
