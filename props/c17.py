"""C17 Writing relations and reading them back reproduces the tuples."""
import os, random, re
from vlib import runner
from vlib.core import Result
from . import progcommon as pc, tmpl

RULE = ("case = one relation signature (1-4 columns of number, unsigned, float, symbol, a record [number,symbol], a recursive list "
        "record, an ADT with enum / one-argument / two-argument / recursive branches), a random tuple set over boundary values "
        "(32-bit extremes, 0, denormal / FLT_MAX / -0.0 floats, symbols with quotes, delimiters, brackets, backslashes, blanks, "
        "non-ASCII, the empty string, and CR/LF where the format can represent them) and one I/O configuration: tab text, custom "
        "delimiter (1-2 characters incl. ','), RFC 4180, each with/without headers and gzip; JSON list / object format; SQLite. "
        "Program A holds the tuples as facts and writes them with `.output r(<options>)`; program B reads the file with the "
        "matching `.input r(<options>)`, holds the same facts as `exp`, and reports |r|, |exp \\ r| and |r \\ exp| as numbers (a "
        "channel that needs no quoting). oracle = both programs succeed, |r| = |T|, nothing missing, nothing extra. "
        "non-trivial = distinct case with >= 1 tuple whose signature has a symbol, float, record or ADT column.")

NUMS = [0, 1, -1, 2, 7, 42, -100, 65535, 65536, 2147483647, -2147483648, 2147483646, -2147483647, 1000000007]
UNS = [0, 1, 2, 7, 65535, 65536, 2147483647, 2147483648, 4294967295, 4294967294, 305419896]
FLOATS = ["0.0", "1.5", "-2.25", "0.1", "-0.1", "3.14159274", "100000.0", "0.000001", "16777216.0", "-16777217.0", "0.333333343",
          "340282346638528859811704183484516925440.0", "0.000000000000000000000000000000000000011754943508222875", "123456.789"]
SYM_BASE = ["a", "b", "abc", "x1", "Hello World", " lead", "trail ", "two  blanks", "0", "-1", "1.5", "nil", "null", "true", "$N", "a.b", "a:b", "k_9", "#", "%d", "caf\u00e9", "\u4e2d"]
SYM_PUNCT = ['quo"te', "it's", "back\\slash", "semi;colon", "pipe|d", "br[ack]et", "br{ac}e", "(par)", "com,ma", "a=b", "x::y", "\\n literal", '""', '"', "\\"]
SYM_WS = ["tab\there", "new\nline", "cr\rlf\n", "\n", "\t"]


def esc(s):
    return '"' + s.replace("\\", "\\\\").replace('"', '\\"').replace("\n", "\\n").replace("\t", "\\t").replace("\r", "\\r") + '"'


def gen_case(seed):
    rng = random.Random(seed)
    fmt = rng.choice(["tab", "tab", "delim", "delim", "rfc4180", "rfc4180", "json-list", "json-object", "sqlite"])
    delim = None
    opts = []
    if fmt == "tab":
        forbidden = "\t\n\r"
    elif fmt == "delim":
        delim = rng.choice([",", "|", ";", ":", "::", "#", " ", "~~", ",,"])
        opts.append('delimiter="%s"' % delim)
        forbidden = delim + "\n\r"
    elif fmt == "rfc4180":
        if rng.random() < 0.5:
            delim = rng.choice([",", ";", "|"])
            opts.append('delimiter="%s"' % delim)
        opts.append("rfc4180=true")
        forbidden = ""
    elif fmt.startswith("json"):
        opts.append("IO=jsonfile")
        opts.append("format=%s" % ("list" if fmt == "json-list" else "object"))
        forbidden = ""
    else:
        opts.append("IO=sqlite")
        opts.append('dbname="db.sqlite"')
        forbidden = ""
    if fmt in ("tab", "delim", "rfc4180"):
        if rng.random() < 0.35:
            opts.append("headers=true")
        if rng.random() < 0.3:
            opts.append("compress=true")
    ncol = rng.randint(1, 4)
    kinds = [rng.choice(["number", "unsigned", "float", "symbol", "symbol", "P", "L", "A"]) for _ in range(ncol)]
    if fmt in ("json-list", "json-object", "sqlite") and rng.random() < 0.85:
        kinds = [("P" if k == "A" else k) for k in kinds]      # ADT columns are a recorded finding for these formats: keep most cases free of them
    if fmt == "delim" and any(k in ("P", "L", "A") for k in kinds) and (" " in delim or "," in delim):
        # records and ADTs are written as `[1, a]` / `$B(1, a)`: a delimiter made of ',' or ' ' cannot be told from their own
        # punctuation, so the text format cannot represent these signatures with such a delimiter
        delim = rng.choice(["|", ";", ":", "::", "#", "~~"])
        opts[0] = 'delimiter="%s"' % delim
        forbidden = delim + "\n\r"
    top_syms = [s for s in SYM_BASE + SYM_PUNCT + ([""] if True else []) + (SYM_WS if fmt in ("rfc4180", "json-list", "json-object", "sqlite") else [])
                if not any(ch in s for ch in forbidden) and (delim is None or delim not in s or fmt == "rfc4180")]
    # composed symbols: the fixed pool only has each special character in a few neighbourhoods, while quoting and escaping code
    # looks at neighbours (a quote at the end of a line, a doubled quote before a delimiter, a backslash before a quote ...)
    atoms = ["a", "b", "x", " ", '"', '"', "\n", "\r", "\t", ",", "\\", "|", ";", "[", "]", '""', "'", ":"]
    composed = []
    for _ in range(12):
        c = "".join(rng.choice(atoms) for _ in range(rng.randint(1, 5)))
        if not any(ch in c for ch in forbidden) and (delim is None or delim not in c or fmt == "rfc4180"):
            if fmt in ("rfc4180", "json-list", "json-object", "sqlite") or not any(ch in c for ch in "\n\r\t"):
                # plain text with a delimiter that contains ',': the reader counts brackets to tell a record's commas from
                # delimiters, so a symbol with a stray bracket is outside what that format can represent
                if fmt in ("tab", "delim") and delim is not None and "," in delim and ("[" in c or "]" in c):
                    continue
                composed.append(c)
    top_syms = top_syms + composed
    # symbols nested in records / ADTs: the text formats delimit them with ',' ']' ')' - keep them plain there
    inner_syms = [s for s in SYM_BASE if not any(ch in s for ch in forbidden) and (delim is None or delim not in s) and s == s.strip() and s != "nil"]
    if fmt.startswith("json") or fmt == "sqlite":
        inner_syms = inner_syms + ['quo"te', "com,ma", "br[ack]et", "back\\slash"] if fmt.startswith("json") else inner_syms

    def val(k, depth=0):
        if k == "number":
            return str(rng.choice(NUMS))
        if k == "unsigned":
            return str(rng.choice(UNS))
        if k == "float":
            return rng.choice(FLOATS)
        if k == "symbol":
            return esc(rng.choice(top_syms if depth == 0 else inner_syms))
        if k == "P":
            return "nil" if rng.random() < 0.15 else "[%s, %s]" % (val("number", 1), val("symbol", 1))
        if k == "L":
            if depth > 3 or rng.random() < 0.3:
                return "nil"
            return "[%s, %s]" % (val("number", 1), val("L", depth + 1))
        if k == "A":
            x = rng.random()
            if x < 0.25 or depth > 2:
                return "$N()"
            if x < 0.5:
                return "$I(%s)" % val("number", 1)
            if x < 0.75:
                return "$S(%s, %s)" % (val("symbol", 1), val("float", 1))
            return "$R(%s, %s)" % (val("A", depth + 1), val("P", 1))
    n = rng.choice([0, 1, 2, 3, 5, 8, 13, 25])
    tuples = sorted({tuple(val(k) for k in kinds) for _ in range(n)})
    return dict(fmt=fmt, opts=opts, kinds=kinds, tuples=tuples, delim=delim)


TYPES = [".type P = [a:number, b:symbol]", ".type L = [h:number, t:L]",
         ".type A = N {} | I {v:number} | S {s:symbol, f:float} | R {a:A, p:P}"]


def programs(case):
    kinds, tuples, opts = case["kinds"], case["tuples"], case["opts"]
    sig = ", ".join("c%d:%s" % (i, k) for i, k in enumerate(kinds))
    vs = ", ".join("x%d" % i for i in range(len(kinds)))
    us = ", ".join("_" for _ in kinds)
    fname = {"sqlite": None}.get(case["fmt"], "data.out")
    wopts = list(opts)
    ropts = list(opts)
    if case["fmt"] != "sqlite":
        wopts.append('filename="data.out"')
        ropts.append('filename="data.out"')
    a = list(TYPES) + [".decl r(%s)" % sig] + ["r(%s)." % ", ".join(t) for t in tuples] + [".output r(%s)" % ", ".join(wopts)]
    b = list(TYPES) + [".decl exp(%s)" % sig] + ["exp(%s)." % ", ".join(t) for t in tuples]
    b += [".decl r(%s)" % sig, ".input r(%s)" % ", ".join(ropts)]
    b += [".decl missing(%s)" % sig, "missing(%s) :- exp(%s), !r(%s)." % (vs, vs, vs), ".output missing"]
    b += [".decl extra(%s)" % sig, "extra(%s) :- r(%s), !exp(%s)." % (vs, vs, vs), ".output extra"]
    b += [".decl res(nr:number, nmissing:number, nextra:number)", ".output res",
          "res(a, b, c) :- a = count : { r(%s) }, b = count : { missing(%s) }, c = count : { extra(%s) }." % (us, us, us)]
    return "\n".join(a) + "\n", "\n".join(b) + "\n"


def classify(case):
    """which value classes the tuple set contains (appended to violation keys so that a finding names what it needs)"""
    tags = set()
    text = " ".join(" ".join(t) for t in case["tuples"])
    if '\\"' in text:
        tags.add("quote")
    if "\\\\" in text:
        tags.add("backslash")
    if "\\n" in text or "\\r" in text:
        tags.add("newline")
    if "\\t" in text:
        tags.add("tab")
    if re.search(r'(^|[ (\[,])""', text):
        tags.add("empty-symbol")
    if re.search(r'" | "', text) or '" lead' in text or 'trail "' in text:
        tags.add("blank-edge")
    if "[" in text.replace('"br[ack]et"', ""):
        tags.add("record")
    if "$" in text.replace('"$N"', ""):
        tags.add("adt")
    if "nil" in re.sub(r'"[^"]*"', "", text):
        tags.add("nil")
    if case["delim"] and any(case["delim"] in t for tup in case["tuples"] for t in tup):
        tags.add("delimiter-in-value")
    for f in ("340282346638528859811704183484516925440.0", "0.000000000000000000000000000000000000011754943508222875"):
        if f in text:
            tags.add("float-extreme")
    if "float" in case["kinds"]:
        tags.add("float")
    if any(ord(ch) > 127 for ch in text):
        tags.add("non-ascii")
    return sorted(tags)


def run_case(case, souffle, d, sub):
    """-> (symptom or None, detail)"""
    pa, pb = programs(case)
    dd = os.path.join(d, sub)
    os.makedirs(dd, exist_ok=True)
    for f in os.listdir(dd):
        try:
            os.unlink(os.path.join(dd, f))
        except OSError:
            pass
    with open(os.path.join(dd, "a.dl"), "w") as f:
        f.write(pa)
    with open(os.path.join(dd, "b.dl"), "w") as f:
        f.write(pb)
    desc = "format %s options %s signature %s\n--- writer ---\n%s" % (case["fmt"], case["opts"], case["kinds"], pa[-2500:])
    ra, ck = tmpl.run(souffle, dd, prog="a.dl")
    if ck is not None:
        return "write:crash:" + ck, "the writer died (%s)\n%s\n%s" % (ck, ra.err[-1500:], desc)
    if ra.rc != 0:
        return "write:error-exit", "the writer exited with %s\n%s\n%s" % (ra.rc, ra.err[-1200:], desc)
    rb, ck = tmpl.run(souffle, dd, prog="b.dl")
    if ck is not None:
        return "read:crash:" + ck, "the reader died (%s)\n%s\n%s" % (ck, rb.err[-1500:], desc)
    if rb.rc != 0:
        return "read:error-exit", "the reader rejects the file souffle wrote (exit %s)\n%s\n%s" % (rb.rc, rb.err[-1200:], desc)
    res = tmpl.read_rows(dd, "res")
    want = (len(case["tuples"]), 0, 0)
    if res is None or len(res) != 1:
        return "read:no-result", "the reader wrote no result row: %r\n%s" % (res, desc)
    if res[0] != want:
        miss = ex = ""
        try:
            miss = open(os.path.join(dd, "missing.csv"), errors="replace").read()[:600]
            ex = open(os.path.join(dd, "extra.csv"), errors="replace").read()[:600]
        except OSError:
            pass
        return "round-trip-differs", "read back (|r|, missing, extra) = %s, expected %s\nmissing:\n%s\nextra:\n%s\n%s" % (res[0], want, miss, ex, desc)
    return None, ""


def minimise(case, souffle, d, symptom):
    """smallest failing sub-case: one tuple, then one column; the violation key is built from what that still contains"""
    best = case
    for t in case["tuples"][:30]:
        c1 = dict(case, tuples=[t])
        s1, _ = run_case(c1, souffle, d, "min")
        if s1 is not None and s1.split(":")[0:2] == symptom.split(":")[0:2]:
            best = c1
            for i in range(len(case["kinds"])):
                c2 = dict(case, tuples=[(t[i],)], kinds=[case["kinds"][i]])
                s2, _ = run_case(c2, souffle, d, "min")
                if s2 is not None and s2.split(":")[0:2] == symptom.split(":")[0:2]:
                    return c2
            return best
    return best


def worker(arg):
    seed, souffle = arg
    case = gen_case(seed)
    pa, pb = programs(case)
    optnames = [o.split("=")[0] for o in case["opts"] if o.startswith(("headers", "compress"))]
    rec = dict(seed=seed, hash=runner.prog_hash(pa), features=["io-" + case["fmt"]] + optnames,
               counts={"cases": 1, "tuples_written": len(case["tuples"])})
    d = runner.case_dir("C17", seed)
    rec["dir"] = d
    viols = []
    symptom, detail = run_case(case, souffle, d, "full")
    if symptom is not None:
        m = minimise(case, souffle, d, symptom)
        s2, d2 = run_case(m, souffle, d, "min")
        if s2 is None:
            m, s2, d2 = case, symptom, detail
        tags = classify(m)
        kinds = sorted(set(m["kinds"])) if len(m["tuples"]) == 1 and len(m["kinds"]) == 1 else ["multi"]
        key = "%s:%s|%s|%s" % (case["fmt"], s2, ",".join(kinds), ",".join(tags + ([] if len(m["kinds"]) == 1 else optnames)))
        viols.append((key, "minimal failing case: %s %s\n%s\n=== original case ===\n%s" % (m["kinds"], m["tuples"][:3], d2, detail[:1500])))
    rec["nontrivial"] = bool(case["tuples"]) and any(k not in ("number", "unsigned") for k in case["kinds"])
    if viols:
        rec.update(status="viol", viols=viols, program=pa)
    else:
        rec.update(status="ok", sample=({"writer": pa[-1200:], "options": case["opts"]} if seed % 100 == 0 else None))
    return rec


def check(tier, seed):
    t = pc.trees("plain", "san")
    n = 900 if tier == "quick" else 4500
    nsan = 50 if tier == "quick" else 250
    res = Result("exploration")
    res.rule = RULE
    base = seed * 1000000 + (0 if tier == "quick" else 100000) + 170000
    recs = runner.pmap(worker, [(base + i, t["plain"]) for i in range(n)] + [(base + n + i, t["san"]) for i in range(nsan)])
    pc.collect("C17", recs, res)
    res.min_nontrivial = n // 4
    res.assumptions = ["end-to-end through the interpreter binary (directive plumbing included); values enter through fact constants in program text",
                       "symbols nested in records / ADTs are kept free of the text formats' structural characters; infinities and NaN are not written"]
    return res
