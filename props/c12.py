"""C12 Lattice relations hold one least-upper-bound value per key."""
import os, random, subprocess
from vlib import runner, build
from vlib.core import Result, Inconclusive
from . import progcommon as pc, tmpl

RULE = ("case = one template program with a lattice declaration over monotone user-defined functors of finite height (libvfunctors.so, "
        "built by setup: max / min on numbers, bit-set union / intersection, interval hull / meet on records): per-key maximum, "
        "per-key minimum with two key columns, per-key bit-set union, two lattice columns in one relation (interval hull + max), "
        "recursive bounded shortest distance (join = min), recursive reachable-set propagation (join = bit-set union), and a "
        "recursive relation whose rule swaps two lattice columns; key collisions within one iteration and across iterations; run by "
        "the real interpreter at -j1 and -j4. oracle (Python least fixpoint of the same rules, joining per key): the final relation "
        "holds at most one tuple per assignment of the non-lattice attributes, and its lattice value is the join of all values "
        "derivable for that key from the final database. non-trivial = distinct program in which some key received >= 2 different "
        "values (a real join happened).")

FUN_SRC = os.path.join(build.VERIF, "harness", "functors", "vfunctors.cpp")
FUN_DIR = os.path.join(build.BUILD, "functors")


def ensure_functors():
    os.makedirs(FUN_DIR, exist_ok=True)
    so = os.path.join(FUN_DIR, "libvfunctors.so")
    stamp = so + ".stamp"
    want = build.hash_files([FUN_SRC]) + build.include_hash()
    with build.Lock("functors"):
        if os.path.exists(so) and os.path.exists(stamp) and open(stamp).read() == want:
            return FUN_DIR
        r = subprocess.run(["g++", "-std=c++17", "-shared", "-fPIC", "-O1", "-I" + os.path.join(build.REPO, "src", "include"), FUN_SRC, "-o", so],
                           stdout=subprocess.PIPE, stderr=subprocess.STDOUT, text=True)
        if r.returncode != 0:
            raise Inconclusive("libvfunctors.so does not build: " + r.stdout[-2000:])
        with open(stamp, "w") as f:
            f.write(want)
    return FUN_DIR


HEADER = """.type M <: number
.type D <: number
.type B <: number
.type I = [lo:number, hi:number]
.functor vmax(a:number, b:number):number stateful
.functor vmin(a:number, b:number):number stateful
.functor vor(a:number, b:number):number stateful
.functor vand(a:number, b:number):number stateful
.functor vhull(a:I, b:I):I stateful
.functor vmeet(a:I, b:I):I stateful
.lattice M<> { Bottom -> as(-1000000, M), Lub -> @vmax(_,_), Glb -> @vmin(_,_) }
.lattice D<> { Bottom -> as(1000000, D), Lub -> @vmin(_,_), Glb -> @vmax(_,_) }
.lattice B<> { Bottom -> as(0, B), Lub -> @vor(_,_), Glb -> @vand(_,_) }
.lattice I<> { Bottom -> [0, -1], Lub -> @vhull(_,_), Glb -> @vmeet(_,_) }
"""


def program(seed):
    """-> text, relation name, arity of the key, expected dict key-tuple -> lattice value tuple (as strings of the output columns), joined?"""
    rng = random.Random(seed)
    shape = rng.choice(["keymax", "keymin2", "bitset", "two-lattice-columns", "sssp", "reachset", "swap"])
    o = [HEADER]
    if shape == "keymax":
        rows = [(rng.randint(0, 6), rng.randint(-20, 40)) for _ in range(rng.randint(1, 30))]
        o += [".decl e(k:number, v:number)"] + ["e(%d, %d)." % r for r in rows]
        o += [".decl r(k:number, v:M<>)", ".output r", "r(k, as(v, M)) :- e(k, v)."]
        if rng.random() < 0.5:
            o += ["r(k, as(v + 1, M)) :- e(k, v), v < 10."]
            rows = rows + [(k, v + 1) for k, v in rows if v < 10]
        exp = {}
        for k, v in rows:
            exp.setdefault((k,), set()).add(v)
        joined = any(len(s) > 1 for s in exp.values())
        exp = {k: (str(max(s)),) for k, s in exp.items()}
        return "\n".join(o) + "\n", "r", 1, exp, joined
    if shape == "keymin2":
        rows = [(rng.randint(0, 3), rng.randint(0, 3), rng.randint(-5, 50)) for _ in range(rng.randint(1, 30))]
        o += [".decl e(a:number, b:number, v:number)"] + ["e(%d, %d, %d)." % r for r in rows]
        o += [".decl r(a:number, b:number, v:D<>)", ".output r", "r(a, b, as(v, D)) :- e(a, b, v)."]
        exp = {}
        for a, b, v in rows:
            exp.setdefault((a, b), set()).add(v)
        joined = any(len(s) > 1 for s in exp.values())
        return "\n".join(o) + "\n", "r", 2, {k: (str(min(s)),) for k, s in exp.items()}, joined
    if shape == "bitset":
        rows = [(rng.randint(0, 5), rng.randint(0, 20)) for _ in range(rng.randint(1, 30))]
        o += [".decl e(k:number, bit:number)"] + ["e(%d, %d)." % r for r in rows]
        o += [".decl r(k:number, s:B<>)", ".output r", "r(k, as(1 bshl b, B)) :- e(k, b)."]
        exp = {}
        for k, b in rows:
            exp[(k,)] = exp.get((k,), 0) | (1 << b)
        cnt = {}
        for k, b in set(rows):
            cnt[k] = cnt.get(k, 0) + 1
        return "\n".join(o) + "\n", "r", 1, {k: (str(v),) for k, v in exp.items()}, any(c > 1 for c in cnt.values())
    if shape == "two-lattice-columns":
        rows = [(rng.randint(0, 4), rng.randint(0, 30), rng.randint(0, 12), rng.randint(-9, 9)) for _ in range(rng.randint(1, 24))]
        rows = [(k, lo, lo + w, m) for k, lo, w, m in rows]
        o += [".decl e(k:number, lo:number, hi:number, m:number)"] + ["e(%d, %d, %d, %d)." % r for r in rows]
        o += [".decl r(k:number, i:I<>, m:M<>)", ".output r", "r(k, [lo, hi], as(m, M)) :- e(k, lo, hi, m)."]
        exp = {}
        cnt = {}
        for k, lo, hi, m in rows:
            cur = exp.get((k,))
            exp[(k,)] = (lo, hi, m) if cur is None else (min(cur[0], lo), max(cur[1], hi), max(cur[2], m))
            cnt[k] = cnt.get(k, 0) + 1
        return "\n".join(o) + "\n", "r", 1, {k: ("[%d, %d]" % (v[0], v[1]), str(v[2])) for k, v in exp.items()}, any(c > 1 for c in cnt.values())
    n = rng.randint(3, 9)
    if shape == "sssp":
        bound = rng.choice([15, 30, 60])
        edges = sorted({(rng.randrange(n), rng.randrange(n), rng.randint(1, 6)) for _ in range(rng.randint(n, 3 * n))})
        src = rng.randrange(n)
        o += [".decl edge(a:number, b:number, w:number)"] + ["edge(%d, %d, %d)." % e for e in edges]
        o += [".decl dist(n:number, d:D<>)", ".output dist", "dist(%d, as(0, D))." % src,
              "dist(y, as(d + w, D)) :- dist(x, d), edge(x, y, w), d + w < %d." % bound]
        dist = {src: 0}
        changed = True
        joined = False
        while changed:
            changed = False
            for a, b, w in edges:
                if a in dist and dist[a] + w < bound:
                    nd = dist[a] + w
                    if b in dist and dist[b] != nd:
                        joined = True
                    if b not in dist or nd < dist[b]:
                        dist[b] = nd
                        changed = True
        return "\n".join(o) + "\n", "dist", 1, {(k,): (str(v),) for k, v in dist.items()}, joined
    if shape == "reachset":
        edges = sorted({(rng.randrange(n), rng.randrange(n)) for _ in range(rng.randint(n, 3 * n))})
        srcs = rng.sample(range(n), rng.randint(1, 2))
        o += [".decl edge(a:number, b:number)"] + ["edge(%d, %d)." % e for e in edges]
        o += [".decl rs(n:number, s:B<>)", ".output rs"] + ["rs(%d, as(%d, B))." % (s, 1 << s) for s in srcs]
        o += ["rs(y, as(s bor (1 bshl y), B)) :- rs(x, s), edge(x, y)."]
        val = {s: 1 << s for s in srcs}
        changed = True
        joined = False
        while changed:
            changed = False
            for a, b in edges:
                if a in val:
                    nv = val[a] | (1 << b)
                    if b in val and (val[b] | nv) != val[b] and val[b] != nv:
                        joined = True
                    if b not in val or (val[b] | nv) != val[b]:
                        val[b] = val.get(b, 0) | nv
                        changed = True
        return "\n".join(o) + "\n", "rs", 1, {(k,): (str(v),) for k, v in val.items()}, joined
    # swap: R(x, b, a) :- R(x, a, b). over two interval columns: both converge to the hull of both
    rows = [(rng.randint(0, 3), rng.randint(0, 20), rng.randint(0, 9), rng.randint(0, 20), rng.randint(0, 9)) for _ in range(rng.randint(1, 10))]
    o += [".decl e(k:number, a:number, aw:number, b:number, bw:number)"] + ["e(%d, %d, %d, %d, %d)." % r for r in rows]
    o += [".decl r(k:number, i:I<>, j:I<>)", ".output r", "r(k, [a, a + aw], [b, b + bw]) :- e(k, a, aw, b, bw).", "r(k, j, i) :- r(k, i, j)."]
    exp = {}
    for k, a, aw, b, bw in rows:
        lo, hi = min(a, b), max(a + aw, b + bw)
        cur = exp.get((k,))
        exp[(k,)] = (lo, hi) if cur is None else (min(cur[0], lo), max(cur[1], hi))
    return "\n".join(o) + "\n", "r", 1, {k: ("[%d, %d]" % v, "[%d, %d]" % v) for k, v in exp.items()}, True


def worker(arg):
    seed, souffle, fundir = arg
    text, rel, nkey, exp, joined = program(seed)
    shape = [l for l in text.split("\n") if l.startswith(".decl")][-1]
    rec = dict(seed=seed, hash=runner.prog_hash(text), features=["lattice"], counts={})
    d = tmpl.setup_case("C12", seed, text)
    rec["dir"] = d
    viols = []
    for j in (1, 4):
        od = "j%d" % j
        r, ck = tmpl.run(souffle, d, args=["-j%d" % j, "-L" + fundir, "-lvfunctors"], outdir=od)
        rec["counts"]["runs"] = rec["counts"].get("runs", 0) + 1
        if ck is not None:
            viols.append(("crash:" + ck, "-j%d died (%s)\n%s\n%s" % (j, ck, r.err[-2000:], text)))
            continue
        if r.rc != 0:
            errs = [l for l in r.err.split("\n") if l.startswith("Error")][:3]
            viols.append(("error-exit", "-j%d exited with %s: %s\n%s\n%s" % (j, r.rc, errs, r.err[-600:], text)))
            continue
        rows = tmpl.read_rows(d, rel, od, ints=False)
        if rows is None:
            viols.append(("output:missing", "-j%d: no output for %s\n%s" % (j, rel, text)))
            continue
        got = {}
        dup = None
        for row in rows:
            k = tuple(int(x) for x in row[:nkey])
            if k in got:
                dup = k
            got[k] = tuple(row[nkey:])
        if dup is not None:
            viols.append(("two-tuples-for-one-key", "-j%d: %s holds several tuples for key %s: %s\n%s" % (j, rel, dup, [r_ for r_ in rows if tuple(int(x) for x in r_[:nkey]) == dup][:4], text)))
        if set(got) != set(exp):
            viols.append(("keys-differ", "-j%d: keys only in souffle %s, only in the least fixpoint %s\n%s" % (j, sorted(set(got) - set(exp))[:4], sorted(set(exp) - set(got))[:4], text)))
        wrong = [(k, got[k], exp[k]) for k in sorted(set(got) & set(exp)) if got[k] != exp[k]]
        if wrong:
            viols.append(("lattice-value-not-the-join", "-j%d: key %s holds %s, the join of all derivable values is %s\n%s" % (j, wrong[0][0], wrong[0][1], wrong[0][2], text)))
    rec["nontrivial"] = joined
    if viols:
        seen, uniq = set(), []
        for k, dtl in viols:
            if k not in seen:
                seen.add(k)
                uniq.append((k, dtl))
        rec.update(status="viol", viols=uniq[:3], program=text)
    else:
        rec.update(status="ok", sample=({"program": text[-900:]} if seed % 40 == 0 else None))
    return rec


def check(tier, seed):
    t = pc.trees("plain", "san")
    fundir = ensure_functors()
    n = 500 if tier == "quick" else 3000
    nsan = 30 if tier == "quick" else 150
    res = Result("exploration")
    res.rule = RULE
    base = seed * 1000000 + (0 if tier == "quick" else 50000) + 120000
    recs = runner.pmap(worker, [(base + i, t["plain"], fundir) for i in range(n)] + [(base + n + i, t["san"], fundir) for i in range(nsan)])
    pc.collect("C12", recs, res)
    res.min_nontrivial = n // 4
    res.assumptions = ["interpreter only (functors loaded through libffi)", "template programs (7 shapes); the functors are monotone and of finite height by construction"]
    return res
