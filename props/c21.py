"""C21 The C++ embedding API is consistent with file-based runs."""
import os, random, struct
from vlib import runner, build
from vlib.core import Result
from . import progcommon as pc, diffcommon as dc
from gen import dl, progen

RULE = ("case = one generated program over primitive column types (number, unsigned, float, symbol; negation, aggregates, "
        "recursion, eqrel) used as a library: `souffle -g` code is compiled into a generic driver (harness/api/driver.cpp, "
        "__EMBEDDED_SOUFFLE__) that executes a script of API calls and logs every return value. Script: insert every input "
        "tuple through Relation::insert, run(), then for every output relation iterate, size(), contains() for members and "
        "non-members; purgeOutput/Internal/InputRelations, size() again, re-insert, run(), iterate again; a final variant loads "
        "with loadAll(). oracle = iterated tuples equal the file-based interpreter run of the same program and facts; size() "
        "equals the number of iterated tuples; contains(t) is true exactly for iterated tuples; after purge every relation is "
        "empty; the second run reproduces the first. non-trivial = distinct program with derived tuples whose driver ran.")

DRIVER = os.path.join(build.VERIF, "harness", "api", "driver.cpp")


def cfg_fn(rng):
    cfg = dc.base_cfg(rng)
    cfg.update(p_records=0.0, p_adts=0.0, p_file_input=1.0, p_eqrel=0.25, p_nullary=0.0, sinks_only=False)
    return cfg


def f32(x):
    return struct.unpack("<f", struct.pack("<f", x))[0]


def canon(rel, vals):
    out = []
    for (_, t), v in zip(rel.attrs, vals):
        k = t.kind
        if k in ("number", "unsigned"):
            out.append(int(v))
        elif k == "float":
            out.append(f32(float(v)))
        else:
            out.append(v)
    return tuple(out)


def fmt(rel, tup):
    out = []
    for (_, t), v in zip(rel.attrs, tup):
        if t.kind == "float":
            out.append(repr(float(v)))
        else:
            out.append(str(v))
    return out


def worker(arg):
    seed, souffle = arg
    rng = random.Random(seed)
    prog = progen.generate(seed, cfg_fn(rng))
    text = dl.fmt_program(prog)
    rec = dict(seed=seed, hash=runner.prog_hash(text), features=sorted(prog.features), counts={})
    if any(t.kind not in ("number", "unsigned", "float", "symbol") for r in prog.rels for _, t in r.attrs):
        rec.update(status="skip", reason="non-primitive-column")
        return rec
    if any(("\t" in v or "\n" in v) for r in prog.rels for f in r.facts for v in f if isinstance(v, str)):
        rec.update(status="skip", reason="symbol-with-tab")
        return rec
    d = runner.case_dir("C21", seed)
    rec["dir"] = d
    runner.write_case(d, prog, text=text)
    base = runner.run_souffle(souffle, d, outdir="interp", timeout=180)
    if runner.crash_key(base) is not None or base.rc != 0:
        rec.update(status="skip", reason="interpreter-" + (runner.crash_key(base) or "rejected").split(":")[0])
        return rec
    iouts, problems = runner.read_outputs(d, prog, outdir="interp")
    if problems:
        rec.update(status="skip", reason="interpreter-output-unreadable")
        return rec
    want = {r.name: {canon(r, t) for t in iouts[r.name]} for r in prog.rels if r.is_output and r.name in iouts}
    viols = []
    g = runner.run_souffle(souffle, d, args=["-g", "prog.cpp"], timeout=180)
    if runner.crash_key(g) is not None or g.rc != 0:
        viols.append(("generate:" + (runner.crash_key(g) or "error-exit"), "souffle -g failed\n%s\n%s" % (g.err[-1500:], text)))
        rec.update(status="viol", viols=viols, program=text)
        return rec
    with open(os.path.join(d, "drv.cpp"), "w") as f:
        f.write('#define GENERATED_CPP "%s"\n#include "%s"\n' % (os.path.join(d, "prog.cpp"), DRIVER))
    comp = os.path.join(os.path.dirname(souffle), "souffle-compile.py")
    c = runner.run_cmd(["python3", comp, "drv.cpp", "-o", "drv"], d, timeout=900)
    rec["counts"]["compiles"] = 1
    if c.rc != 0 or not os.path.exists(os.path.join(d, "drv")):
        viols.append(("driver-compile-error", "the driver + generated code does not compile\n%s\n%s" % ((c.err or c.out)[-2500:], text)))
        rec.update(status="viol", viols=viols, program=text)
        return rec
    inputs = [r for r in prog.rels if r.is_input]
    outs = [r for r in prog.rels if r.is_output and r.name in want]
    script = []
    expect = []     # (line index (1-based), kind, relation, payload)

    def emit(cmd):
        script.append(cmd)
        return len(script)

    def insert_all():
        for r in inputs:
            facts = list(r.facts)
            rng.shuffle(facts)
            for t in facts:
                emit("\t".join(["insert", r.name] + fmt(r, t)))

    def observe(tag):
        for r in outs:
            expect.append((emit("iter\t" + r.name), "iter", r, tag))
            expect.append((emit("size\t" + r.name), "size", r, tag))
            mem = sorted(want[r.name], key=repr)
            rng.shuffle(mem)
            for t in mem[:4]:
                expect.append((emit("\t".join(["contains", r.name] + fmt(r, t))), "contains", r, 1))
                # a non-member: perturb one column
                u = list(t)
                i = rng.randrange(len(u)) if u else None
                if i is not None:
                    k = r.attrs[i][1].kind
                    u[i] = (u[i] + 7777 if k in ("number", "unsigned") else (u[i] + 0.5 if k == "float" else u[i] + "#zz"))
                    if k == "unsigned":
                        u[i] %= 2 ** 32
                    if k == "number" and u[i] >= 2 ** 31:
                        u[i] -= 2 ** 32
                    if canon(r, u) not in want[r.name]:
                        expect.append((emit("\t".join(["contains", r.name] + fmt(r, u))), "contains", r, 0))

    j = rng.choice([1, 1, 4])
    emit("threads\t%d" % j)
    insert_all()
    emit("run")
    observe("first-run")
    emit("purge_out")
    emit("purge_internal")
    emit("purge_in")
    for r in prog.rels:
        if r.attrs and (r.is_input or r.is_output):
            expect.append((emit("size\t" + r.name), "empty", r, "after-purge"))
    if seed % 2 == 0:
        insert_all()
    else:
        emit("loadall\t.")
    emit("run")
    observe("second-run")
    with open(os.path.join(d, "script.txt"), "w") as f:
        f.write("\n".join(script) + "\n")
    r = runner.run_cmd([os.path.join(d, "drv"), "prog", "script.txt"], d, timeout=300)
    ck = runner.crash_key(r)
    if ck is not None or r.rc != 0 or not r.out.rstrip().endswith("END"):
        viols.append(("driver:" + (ck or "exit-%s" % r.rc), "the embedded program died / did not finish (%s)\n%s\n%s" % (ck, (r.err or "")[-2000:], text)))
    else:
        log = {}
        for line in r.out.split("\n"):
            p = line.split("\t", 2)
            if len(p) == 3 and p[0].isdigit():
                log.setdefault(int(p[0]), []).append((p[1], p[2]))
        for (idx, kind, rel, payload) in expect:
            got = log.get(idx, [])
            if kind == "iter":
                rows = [canon(rel, g[1].split("\x1f")) if rel.attrs else () for g in got if g[0] == "tuple"]
                n = [int(g[1]) for g in got if g[0] == "iterated"]
                if len(set(rows)) != len(rows):
                    viols.append(("iterate:duplicates", "%s (%s): iteration yields duplicate tuples\n%s" % (rel.name, payload, text)))
                if set(rows) != want[rel.name]:
                    viols.append(("iterate:differs-from-file-run:" + payload, "%s (%s): API iteration differs from the file-based run: only API %s, only files %s\n%s" % (
                        rel.name, payload, sorted(set(rows) - want[rel.name], key=repr)[:4], sorted(want[rel.name] - set(rows), key=repr)[:4], text)))
                log[idx] = [("count", len(rows))]
                rec["counts"]["relations_iterated"] = rec["counts"].get("relations_iterated", 0) + 1
            elif kind == "size":
                sz = [int(g[1]) for g in got if g[0] == "size"]
                if not sz or sz[0] != len(want[rel.name]):
                    # compare with the iterated count of the same observation (previous command)
                    viols.append(("size:differs-from-iteration", "%s (%s): size() = %s, iteration / files give %d tuples\n%s" % (rel.name, payload, sz, len(want[rel.name]), text)))
            elif kind == "contains":
                c = [int(g[1]) for g in got if g[0] == "contains"]
                if not c or c[0] != payload:
                    viols.append(("contains:wrong-%d" % payload, "%s: contains() = %s for a tuple that is %s the relation (script line %d: %s)\n%s" % (
                        rel.name, c, "in" if payload else "not in", idx, script[idx - 1], text)))
                rec["counts"]["contains_calls"] = rec["counts"].get("contains_calls", 0) + 1
            elif kind == "empty":
                sz = [int(g[1]) for g in got if g[0] == "size"]
                if not sz or sz[0] != 0:
                    viols.append(("purge:not-empty", "%s holds %s tuples after purge\n%s" % (rel.name, sz, text)))
        rec["counts"]["drivers_run"] = 1
        rec["nontrivial"] = any(want[r.name] for r in outs if not r.name.startswith("e"))
    if viols:
        seen, uniq = set(), []
        for k, dtl in viols:
            if k not in seen:
                seen.add(k)
                uniq.append((k, dtl))
        rec.update(status="viol", viols=uniq[:4], program=text)
    else:
        rec.update(status="ok", sample=({"program": text[:1200], "script_lines": len(script)} if seed % 16 == 0 else None))
    return rec


def check(tier, seed):
    t = pc.trees("plain")
    n = 32 if tier == "quick" else 128
    res = Result("exploration")
    res.rule = RULE
    base = seed * 1000000 + (0 if tier == "quick" else 50000) + 210000
    recs = runner.pmap(worker, [(base + i, t["plain"]) for i in range(n)], nproc=16)
    pc.collect("C21", recs, res)
    res.min_nontrivial = n // 4
    res.assumptions = ["compile-bound: tens of programs per run", "primitive column types only (records / ADTs are not passed through the driver)",
                       "the file-based reference is the interpreter run of the same program (C01/C02 relate it to the model)"]
    return res
