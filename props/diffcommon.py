"""Shared driver of the differential whole-program checks (C03-C07): every generated program is run by
the real interpreter in a baseline configuration and in N variant configurations that the property says
must not change the output relations; the monitor compares the output CSV files as sets."""
import os, random, re, shutil
from vlib import runner, build
from vlib.core import Result, Violation, Inconclusive
from . import progcommon as pc
from gen import dl, progen

# a variant: dict(name=..., cls=<violation key class>, args=[...], env={...}, prog=<alternative text or None>)


def base_cfg(rng):
    cfg = {}
    if rng.random() < 0.3:
        cfg["p_aggregate"] = 0.6
        cfg["p_head_aggr"] = 0.2
    if rng.random() < 0.4:
        cfg["p_recursive"] = 0.9
    if rng.random() < 0.2:
        cfg["p_negation"] = 0.7
    if rng.random() < 0.25:
        cfg["sinks_only"] = True
    return cfg


def shape_tags(prog):
    """coarse, syntactic shape tags of a program; appended to violation keys so that a recorded finding names the
    construct it needs and the same symptom on a program without that construct is still reported"""
    tags = set()
    comp = dl.sccs(prog)
    for c in prog.clauses:
        outer = set()
        for h in c.heads:
            dl.lit_vars(h, outer, False)
        for l in c.body:
            dl.lit_vars(l, outer, False)
        aggrs = []

        def grab(t):
            if isinstance(t, dl.Aggr):
                aggrs.append(t)
                tags.add("aggr")
            if isinstance(t, dl.Adt) and t.args:
                tags.add("adt-pattern")
        def grab_head(t):
            if isinstance(t, dl.Aggr):      # aggregates in head arguments; ADT terms in heads are constructors, not patterns
                aggrs.append(t)
                tags.add("aggr")
        for h in c.heads:
            dl.walk_lit_terms(h, grab_head)
        for l in c.body:
            dl.walk_lit_terms(l, grab)
        eqvars = {}
        flat = list(c.body)
        for l in c.body:
            if isinstance(l, dl.Disj):
                for alt in l.alts:
                    flat.extend(alt)
        for l in flat:
            if isinstance(l, dl.Cmp) and l.op == "=":
                for side in (l.lhs, l.rhs):
                    if isinstance(side, dl.Var):
                        eqvars[side.name] = eqvars.get(side.name, 0) + 1
        if any(n >= 2 for n in eqvars.values()):
            tags.add("var-eq-twice")
        for a in aggrs:
            if aggr_inject_rec(c, a, outer, comp):
                tags.add("aggr-inject-rec")
            for l in a.body:
                if isinstance(l, dl.Cmp) and l.op == "=":
                    for side in (l.lhs, l.rhs):
                        if isinstance(side, dl.Var) and side.name in outer:
                            tags.add("aggr-outer-eq")
    return sorted(tags)


def aggr_inject_rec(c, a, outer, comp):
    """an outer variable used in the aggregate body but bound by none of its atoms: souffle grounds it by copying the first
    outer atom that mentions it into the materialised aggregate clause; if that atom is recursive with the head, the
    aggregate becomes recursive (MaterializeAggregationQueries: "lower stratum ... (not implemented)")"""
    inner_all, inner_atom = set(), set()
    for l in a.body:
        dl.lit_vars(l, inner_all, False)
        if isinstance(l, dl.Atom):
            inner_atom |= {x.name for x in l.args if isinstance(x, dl.Var)}
    def binds(t, v):
        # direct variable argument, or a variable inside a record / ADT pattern
        if isinstance(t, dl.Var):
            return t.name == v
        if isinstance(t, (dl.Rec, dl.Adt)) and t.args:
            return any(binds(x, v) for x in t.args)
        return False
    for v in sorted((inner_all & outer) - inner_atom):
        for l in c.body:
            if isinstance(l, dl.Atom) and any(binds(x, v) for x in l.args):
                if any(comp.get(l.rel) == comp.get(h.rel) for h in c.heads):
                    return True
                break
    return False


def downstream_of_inject_rec(prog):
    """relations whose contents depend on a clause with the aggr-inject-rec shape"""
    comp = dl.sccs(prog)
    seeds = set()
    for c in prog.clauses:
        outer = set()
        for h in c.heads:
            dl.lit_vars(h, outer, False)
        for l in c.body:
            dl.lit_vars(l, outer, False)
        aggrs = []
        for l in list(c.heads) + list(c.body):
            dl.walk_lit_terms(l, lambda t: aggrs.append(t) if isinstance(t, dl.Aggr) else None)
        if any(aggr_inject_rec(c, a, outer, comp) for a in aggrs):
            seeds |= {h.rel for h in c.heads}
    out = set(seeds)
    changed = True
    while changed:
        changed = False
        for c in prog.clauses:
            if any(rn in out for rn, ctx in dl.clause_atoms(c)):
                for h in c.heads:
                    if h.rel not in out:
                        out.add(h.rel)
                        changed = True
    return out


def run_case(prop, seed, souffle, variants_fn, cfg_fn=base_cfg, base_args=(), base_env=None, probe=None, timeout=120, baseline_args=()):
    """-> record for progcommon.collect"""
    rng = random.Random(seed)
    prog = progen.generate(seed, cfg_fn(rng))
    text = dl.fmt_program(prog)
    rec = dict(seed=seed, hash=runner.prog_hash(text), features=sorted(prog.features), counts={})
    d = runner.case_dir(prop, seed)
    rec["dir"] = d
    runner.write_case(d, prog, text=text)
    run = runner.run_souffle(souffle, d, args=list(base_args) + list(baseline_args), env_extra=base_env, timeout=timeout, outdir="base")
    ck = runner.crash_key(run)
    if ck is not None or run.rc != 0:
        # the baseline itself fails: not this property's business (C01/C14 look at that)
        rec.update(status="skip", reason="baseline-" + (ck or "rejected").split(":")[0])
        return rec
    base, problems = runner.read_outputs(d, prog, outdir="base")
    if problems:
        rec.update(status="skip", reason="baseline-output-unreadable")
        return rec
    derived = sum(len(v) for k, v in base.items() if not k.startswith("e"))
    rec["counts"]["baseline_output_tuples"] = sum(len(v) for v in base.values())
    viols = []
    effective = 0
    variants = variants_fn(prog, text, rng, d)
    for i, v in enumerate(variants):
        od = "v%d" % i
        pname = "p.dl"
        if v.get("textfn") is not None:
            v["prog"] = v["textfn"](text)
        if v.get("prog") is not None:
            pname = "p%d.dl" % i
            with open(os.path.join(d, pname), "w") as f:
                f.write(v["prog"])
        if v.get("pre") is not None:
            # a preparatory run of the same program (e.g. writing the profile that the variant then consumes)
            r = runner.run_souffle(souffle, d, args=list(base_args) + list(v["pre"]), env_extra=base_env, timeout=timeout * 3, prog=pname, outdir=od + "pre")
            if runner.crash_key(r) is not None or r.rc != 0:
                ck = runner.crash_key(r) or "error-exit"
                viols.append(("%s-pre:crash:%s" % (v["cls"], ck), "preparatory run %s of variant %s failed (%s)\n%s\n%s" % (
                    v["pre"], v["name"], ck, r.err[-2500:], v.get("prog") or text), v.get("tags", ())))
                continue
        r = runner.run_souffle(souffle, d, args=list(base_args) + list(v.get("args", ())), env_extra=dict(base_env or {}, **v.get("env", {})),
                               timeout=timeout, prog=pname, outdir=od)
        ck = runner.crash_key(r)
        if ck == "timeout":
            r = runner.run_souffle(souffle, d, args=list(base_args) + list(v.get("args", ())), env_extra=dict(base_env or {}, **v.get("env", {})),
                                   timeout=timeout * 6, prog=pname, outdir=od)
            ck = runner.crash_key(r)
        rec["counts"]["variant_runs"] = rec["counts"].get("variant_runs", 0) + 1
        vdesc = "%s  [args %s env %s]" % (v["name"], " ".join(v.get("args", ())), v.get("env", {}))
        if ck is not None:
            viols.append(("%s:crash:%s" % (v["cls"], ck),
                          "variant %s died (%s) where the baseline ran fine\n%s\n%s" % (vdesc, ck, r.err[-2500:], v.get("prog") or text), v.get("tags", ())))
            continue
        if r.rc != 0:
            if v.get("may_reject"):
                rec["counts"]["variant_rejected"] = rec["counts"].get("variant_rejected", 0) + 1
                continue
            why = v["errkey"](r.err) if v.get("errkey") else ""
            viols.append(("%s:error-exit%s" % (v["cls"], ":" + why if why else ""), "variant %s exited with %s where the baseline succeeded\n%s\n%s" % (
                vdesc, r.rc, "\n".join(l for l in r.err.split("\n") if l.startswith("Error"))[-1500:] or r.err[-1500:], v.get("prog") or text), v.get("tags", ())))
            continue
        outs, problems = runner.read_outputs(d, prog, outdir=od)
        for p in problems:
            viols.append(("%s:output:%s" % (v["cls"], p.split(" ")[0]), "variant %s: %s\n%s" % (vdesc, p, v.get("prog") or text), v.get("tags", ())))
        diffs = runner.diff_outputs(prog, outs, base, (v["name"], "baseline"))
        if diffs:
            viols.append(("%s:wrong-result" % v["cls"], "variant %s changes the output relations:\n  %s\n%s" % (
                vdesc, "\n  ".join(diffs), v.get("prog") or text), v.get("tags", ())))
        if v.get("post") is not None:
            # property-specific extra oracle over the finished variant run
            for (ksuffix, detail) in v["post"](v, r, d, od, outs, rec):
                viols.append(("%s:%s" % (v["cls"], ksuffix), "variant %s: %s\n%s" % (vdesc, detail, v.get("prog") or text), v.get("tags", ())))
        eff = True
        if probe is not None:
            eff = probe(v, r, d, od)
        if eff:
            effective += 1
            rec["counts"]["variant_effective"] = rec["counts"].get("variant_effective", 0) + 1
            rec["counts"]["effective:" + v["cls"]] = rec["counts"].get("effective:" + v["cls"], 0) + 1
    rec["nontrivial"] = derived > 0 and effective > 0
    if viols:
        tags = shape_tags(prog)
        viols = [(k + ("|" + ",".join(sorted(set(tags) | set(vt))) if (tags or vt) else ""), dtl) for k, dtl, vt in viols]
    if viols:
        rec.update(status="viol", viols=viols, program=text)
    else:
        rec.update(status="ok", sample=({"program": text[:1200], "variants": [v["name"] for v in variants][:12]} if seed % 40 == 0 else None))
    return rec


def finish(prop, recs, res, n):
    pc.collect(prop, recs, res)
    res.min_nontrivial = max(5, n // 10)
    return res
