"""C26 Deletable B-trees behave as sorted sets (souffle::btree_delete_set)."""
from .dscommon import run_ds

RULE = ("history = a random sequence of up to 200 insert / erase(key) / erase(iterator) / find / contains / lower_bound / upper_bound / "
        "clear operations on one real btree_delete_set with 3-key nodes (merge, rebalance and root collapse happen constantly), "
        "linear and binary search, larger blocks and the default block size, over small key ranges (2..60, heavy re-insertion of "
        "erased keys) and large ones (up to 2^31), checked operation by operation against a std::set model (result of every "
        "insert / erase, iterator position after erase(iterator), bounds) and at random points in full (ascending iteration, "
        "content, size, empty, check()). A third of the histories run phases insert(2-3 threads in parallel, serial scheduler "
        "pre-empting at every load/store/edge) -> erase(sequential) -> insert(parallel) with the concurrent-insert checks of C25 "
        "(one success per new key, content = union). Operation hints are renewed after every erase, as souffle does. Flavours: "
        "serial, free -O2, ASan+UBSan with libstdc++ assertions. distinct_nontrivial = distinct serial schedules of the parallel "
        "phases + histories.")


def check(tier, seed):
    q = tier == "quick"
    plans = []
    for cfg, n in ((0, 6000), (1, 4000), (2, 3000), (3, 2000)):
        plans.append(dict(flavour="serial", label="serial-cfg%d" % cfg, args=["--cfg", cfg, "--threads", 3, "--ops", 200, "--range", 60], total=n if q else n * 10))
    plans.append(dict(flavour="asan", label="asan-cfg0", args=["--cfg", 0, "--threads", 3, "--ops", 200, "--range", 60], total=3000 if q else 30000, chunk=188, timeout=900))
    plans.append(dict(flavour="asan", label="asan-cfg2", args=["--cfg", 2, "--threads", 3, "--ops", 300, "--range", 400], total=1500 if q else 15000, chunk=94, timeout=900))
    plans.append(dict(flavour="free", label="free-cfg1", args=["--cfg", 1, "--threads", 4, "--ops", 300, "--range", 100], total=3000 if q else 30000, chunk=188, timeout=600))
    res = run_ds("C26", "h_btdel", tier, seed, plans, RULE)
    # every history is a distinct random operation sequence
    res.nontrivial = set(range(res.evaluations))
    res.assumptions = ["erasure is sequential (souffle erases in separate statements); only insertion phases are concurrent",
                       "operation hints are not carried across an erase (they cache leaf nodes)"]
    return res
