"""C08 Relation representation is transparent; eqrel holds the closure."""
import os, random, re
from vlib import runner
from vlib.core import Result
from . import progcommon as pc, diffcommon as dc
from gen import dl

RULE = ("two kinds of cases. (a) one generated C01-fragment program run by the real interpreter as written (baseline) and with every "
        "non-eqrel relation of arity >= 1 re-qualified at random as btree / brie / default (3 assignments, one of them all-brie); "
        "oracle = every output CSV equal as a set to the baseline output, no abort. (b) an eqrel probe program: pairs over small, "
        "sparse and extreme 32-bit values (number, unsigned, symbol columns) derived into an eqrel relation by facts, rules and "
        "a recursive rule, read by full scan, by filters, by joins binding the first / second / both columns, by constants in "
        "either column (every value of the pool, extremes included) and under negation; oracle = the reflexive-symmetric-"
        "transitive closure computed by a Python union-find. non-trivial = (a) distinct program with derived tuples, "
        "(b) distinct probe with >= 1 class of size >= 2.")

SOUFFLE = [None]
QUALS = ["btree", "brie", ""]


def cfg_fn(rng):
    cfg = dc.base_cfg(rng)
    cfg["p_eqrel"] = 0.5
    return cfg


def requalify(text, qmap):
    out = []
    for l in text.split("\n"):
        m = re.match(r"^\.decl (\w+)\((.*)\)(.*)$", l)
        if m and m.group(1) in qmap and qmap[m.group(1)]:
            l = l + " " + qmap[m.group(1)]
        out.append(l)
    return "\n".join(out)


def variants(prog, text, rng, d):
    out = []
    cand = [r.name for r in prog.rels if "eqrel" not in r.quals and len(r.attrs) >= 1]
    for i in range(3):
        if i == 0:
            qmap = {n: "brie" for n in cand}
        else:
            qmap = {n: rng.choice(QUALS) for n in cand}
        out.append(dict(name="qualifiers " + " ".join("%s:%s" % kv for kv in sorted(qmap.items()) if kv[1]), cls="requalify",
                        textfn=lambda t, qmap=qmap: requalify(t, qmap)))
    return out


def worker(arg):
    seed, souffle = arg
    SOUFFLE[0] = souffle
    return dc.run_case("C08", seed, souffle, variants, cfg_fn=cfg_fn)


# ------------------------------------------------------------------------------------------------ eqrel probe
POOLS = {
    "number": [0, 1, -1, 2, 3, 5, 7, 100, -100, 65536, 2147483647, -2147483648, 2147483646, -2147483647, 1073741824],
    "unsigned": [0, 1, 2, 3, 5, 7, 100, 65536, 4294967295, 4294967294, 2147483648, 2147483647],
    "symbol": ["", "a", "b", "ab", "x y", "0", "-1", "zz", "A"],
}


def lit(v, ty):
    if ty == "symbol":
        return '"%s"' % v
    return str(v)


def probe_program(seed):
    """-> (text, expected dict rel -> set of tuples of strings, info)"""
    rng = random.Random(seed)
    ty = rng.choice(["number", "number", "unsigned", "symbol"])
    pool = list(POOLS[ty])
    rng.shuffle(pool)
    pool = pool[:rng.randint(3, len(pool))]
    extremes = {"number": [2147483647, -2147483648], "unsigned": [4294967295, 0], "symbol": [""]}[ty]
    for e in extremes:
        if rng.random() < 0.7 and e not in pool:
            pool.append(e)
    npairs = rng.randint(0, max(1, len(pool)))
    src = [(rng.choice(pool), rng.choice(pool)) for _ in range(npairs)]
    facts = [(rng.choice(pool), rng.choice(pool)) for _ in range(rng.randint(0, 3))]
    link = [(rng.choice(pool), rng.choice(pool)) for _ in range(rng.randint(0, 3))]
    dom = sorted(set(rng.sample(pool, rng.randint(1, len(pool)))), key=repr)
    use_link = rng.random() < 0.5
    # closure
    parent = {}

    def find(x):
        parent.setdefault(x, x)
        while parent[x] != x:
            parent[x] = parent[parent[x]]
            x = parent[x]
        return x

    def union(a, b):
        ra, rb = find(a), find(b)
        if ra != rb:
            parent[ra] = rb

    for a, b in src + facts:
        union(a, b)
    if use_link:
        # eq(x, y) :- eq(x, z), link(z, y).   (z must already be an element)
        changed = True
        while changed:
            changed = False
            for z, y in link:
                if z in parent and (y not in parent or find(z) != find(y)):
                    union(z, y)
                    changed = True
    elems = sorted(parent, key=repr)
    eq = {(a, b) for a in elems for b in elems if find(a) == find(b)}
    q = rng.choice(ty == "symbol" and ["btree"] or ["btree", "brie", ""])
    L = lambda v: lit(v, ty)
    o = []
    o.append(".decl src(a:%s, b:%s) %s" % (ty, ty, q))
    o += ["src(%s, %s)." % (L(a), L(b)) for a, b in src]
    o.append(".decl link(a:%s, b:%s)" % (ty, ty))
    o += ["link(%s, %s)." % (L(a), L(b)) for a, b in link]
    o.append(".decl dom(a:%s)" % ty)
    o += ["dom(%s)." % L(a) for a in dom]
    o.append(".decl eq(a:%s, b:%s) eqrel" % (ty, ty))
    o += ["eq(%s, %s)." % (L(a), L(b)) for a, b in facts]
    o.append("eq(x, y) :- src(x, y).")
    if use_link:
        o.append("eq(x, y) :- eq(x, z), link(z, y).")
    exp = {}

    def rel(name, arity, rule, tuples):
        o.append(".decl %s(%s)" % (name, ", ".join("a%d:%s" % (i, ty) for i in range(arity))))
        o.append(".output %s" % name)
        for r in (rule if isinstance(rule, list) else [rule]):
            o.append(r)
        exp[name] = set(tuples)

    rel("q_all", 2, "q_all(x, y) :- eq(x, y).", eq)
    rel("q_j1", 2, "q_j1(v, y) :- dom(v), eq(v, y).", {(v, y) for v in dom for (a, y) in eq if a == v})
    rel("q_j2", 2, "q_j2(v, x) :- dom(v), eq(x, v).", {(v, x) for v in dom for (x, b) in eq if b == v})
    rel("q_j12", 2, "q_j12(v, w) :- dom(v), dom(w), eq(v, w).", {(v, w) for v in dom for w in dom if (v, w) in eq})
    rel("q_n", 2, "q_n(v, w) :- dom(v), dom(w), !eq(v, w).", {(v, w) for v in dom for w in dom if (v, w) not in eq})
    rel("q_diag", 1, "q_diag(x) :- eq(x, x).", {(a,) for (a, b) in eq if a == b})
    rel("q_ne", 2, "q_ne(x, y) :- eq(x, y), x != y.", {(a, b) for (a, b) in eq if a != b})
    rel("q_ex1", 1, "q_ex1(x) :- eq(x, _).", {(a,) for (a, b) in eq})
    rel("q_ex2", 1, "q_ex2(y) :- eq(_, y).", {(b,) for (a, b) in eq})
    consts = list(pool)
    rng.shuffle(consts)
    for i, c in enumerate(consts[:6]):
        rel("q_c1_%d" % i, 1, "q_c1_%d(y) :- eq(%s, y)." % (i, L(c)), {(b,) for (a, b) in eq if a == c})
        rel("q_c2_%d" % i, 1, "q_c2_%d(x) :- eq(x, %s)." % (i, L(c)), {(a,) for (a, b) in eq if b == c})
        c2 = rng.choice(pool)
        rel("q_c12_%d" % i, 1, "q_c12_%d(%s) :- eq(%s, %s)." % (i, L(c), L(c), L(c2)), {(c,)} if (c, c2) in eq else set())
        rel("q_cn_%d" % i, 1, "q_cn_%d(v) :- dom(v), !eq(v, %s)." % (i, L(c)), {(v,) for v in dom if (v, c) not in eq})
    text = "\n".join(o) + "\n"
    strexp = {k: {tuple(str(x) for x in t) for t in v} for k, v in exp.items()}
    biggest = max([sum(1 for b in elems if find(a) == find(b)) for a in elems] or [0])
    return text, strexp, dict(ty=ty, elems=len(elems), biggest_class=biggest, recursive=use_link,
                              extremes=sum(1 for e in extremes if e in parent))


def probe_worker(arg):
    seed, souffle = arg
    text, exp, info = probe_program(seed)
    rec = dict(seed=seed, hash=runner.prog_hash(text), features=["eqrel-probe", "eqrel-" + info["ty"]] + (["eqrel-recursive"] if info["recursive"] else []),
               counts={"probe_cases": 1, "probe_extreme_elements": info["extremes"], "probe_relations_checked": len(exp)})
    d = runner.case_dir("C08", seed)
    rec["dir"] = d
    with open(os.path.join(d, "p.dl"), "w") as f:
        f.write(text)
    args = ["-j4"] if seed % 3 == 0 else []
    run = runner.run_souffle(souffle, d, args=args, timeout=120)
    ck = runner.crash_key(run)
    viols = []
    if ck is not None:
        viols.append(("eqrel-probe:crash:" + ck, "interpreter died on an eqrel probe (%s)\n%s\n%s" % (ck, run.err[-2000:], text)))
    elif run.rc != 0:
        viols.append(("eqrel-probe:error-exit", "eqrel probe rejected\n%s\n%s" % (run.err[-1500:], text)))
    else:
        bad = []
        for name, want in sorted(exp.items()):
            try:
                with open(os.path.join(d, name + ".csv")) as f:
                    raw = f.read()
            except OSError:
                bad.append((name, "missing output file"))
                continue
            lines = raw.split("\n")
            if lines and lines[-1] == "":
                lines = lines[:-1]          # an empty symbol in a unary relation prints as an empty line; only the final newline is dropped
            rows = [tuple(l.split("\t")) for l in lines]
            got = set(rows)
            if len(got) != len(rows):
                bad.append((name, "duplicate tuples"))
            if got != want:
                bad.append((name, "only souffle %s; only closure %s" % (sorted(got - want)[:4], sorted(want - got)[:4])))
        if bad:
            kinds = sorted({re.sub(r"_\d+$", "", n) for n, _ in bad})
            viols.append(("eqrel-probe:wrong-result:%s:%s" % (info["ty"], ",".join(kinds)),
                          "eqrel relation differs from the closure of the derived pairs:\n  " + "\n  ".join("%s: %s" % b for b in bad[:8]) + "\n" + text))
    rec["nontrivial"] = info["biggest_class"] >= 2
    if viols:
        rec.update(status="viol", viols=viols, program=text)
    else:
        rec.update(status="ok", sample=({"program": text[:1500]} if seed % 40 == 0 else None))
    return rec


def compiled_worker(arg):
    """the interpreter keeps every non-eqrel relation in a B-tree, so brie is only real in generated code: the program as written and
    the same program with every relation re-qualified brie (or a random btree/brie mix) are compiled and run; outputs must agree"""
    seed, souffle = arg
    from . import compiled
    from gen import progen
    rng = random.Random(seed)
    prog = progen.generate(seed, cfg_fn(rng))
    text = dl.fmt_program(prog)
    rec = dict(seed=seed, hash=runner.prog_hash(text), features=sorted(prog.features) + ["compiled"], counts={})
    d = runner.case_dir("C08", seed)
    rec["dir"] = d
    runner.write_case(d, prog, text=text)
    cand = [r.name for r in prog.rels if "eqrel" not in r.quals and len(r.attrs) >= 1]
    qmap = {n: ("brie" if (seed % 2 == 0 or rng.random() < 0.6) else "btree") for n in cand}
    with open(os.path.join(d, "q.dl"), "w") as f:
        f.write(requalify(text, qmap))
    outs = {}
    for name, pfile in (("plain", "p.dl"), ("requalified", "q.dl")):
        r, ck = compiled.build_exe(souffle, d, prog=pfile, exe="exe_" + name)
        if ck is not None or r.rc != 0:
            if name == "plain":
                rec.update(status="skip", reason="compile-failed (C02)")
                return rec
            rec.update(status="viol", viols=[("requalify-compiled:build-failed", "the re-qualified program does not build (%s)\n%s\n%s" % (ck or r.rc, r.err[-1500:], requalify(text, qmap)))], program=text)
            return rec
        rr, ck = compiled.run_exe(d, exe="exe_" + name, outdir="c_" + name)
        if ck is not None or rr.rc != 0:
            if name == "plain":
                rec.update(status="skip", reason="compiled-baseline-failed (C02)")
                return rec
            rec.update(status="viol", viols=[("requalify-compiled:crash:%s" % (ck or rr.rc), "the re-qualified executable died\n%s\n%s" % (rr.err[-1500:], requalify(text, qmap)))], program=text)
            return rec
        o, problems = runner.read_outputs(d, prog, outdir="c_" + name)
        if problems:
            if name == "plain":
                rec.update(status="skip", reason="baseline-output-unreadable")
                return rec
            rec.update(status="viol", viols=[("requalify-compiled:output:" + problems[0].split(" ")[0], problems[0] + "\n" + requalify(text, qmap))], program=text)
            return rec
        outs[name] = o
    rec["counts"]["compiles"] = 2
    diffs = runner.diff_outputs(prog, outs["requalified"], outs["plain"], ("re-qualified", "as written"))
    rec["nontrivial"] = any(len(v) for k, v in outs["plain"].items() if not k.startswith("e"))
    if diffs:
        rec.update(status="viol", viols=[("requalify-compiled:wrong-result", "compiled outputs change with the representation (%s):\n  %s\n%s" % (
            " ".join("%s:%s" % kv for kv in sorted(qmap.items())), "\n  ".join(diffs), text))], program=text)
    else:
        rec.update(status="ok", sample=None)
    return rec


def any_worker(arg):
    kind, seed, souffle = arg
    if kind == "compiled":
        return compiled_worker((seed, souffle))
    return probe_worker((seed, souffle)) if kind == "probe" else worker((seed, souffle))


def check(tier, seed):
    t = pc.trees("plain", "san")
    n = 160 if tier == "quick" else 800
    nprobe = 300 if tier == "quick" else 1500
    nsan = 12 if tier == "quick" else 60
    res = Result("exploration")
    res.rule = RULE
    base = seed * 1000000 + (0 if tier == "quick" else 50000) + 800000
    ncomp = 4 if tier == "quick" else 16
    jobs = [("compiled", base + 900000 + i, t["plain"]) for i in range(ncomp)]
    jobs += [("diff", base + i, t["plain"]) for i in range(n)] + [("diff", base + n + i, t["san"]) for i in range(nsan)]
    jobs += [("probe", base + 20000 + i, t["plain"]) for i in range(nprobe)] + [("probe", base + 20000 + nprobe + i, t["san"]) for i in range(nsan * 2)]
    recs = runner.pmap(any_worker, jobs)
    dc.finish("C08", recs, res, n)
    res.assumptions = ["interpreter (where brie and btree are the same B-tree) plus a compile-bound sample in which brie is real (4 quick / 48 thorough)", "programs are samples of the generator's distribution; eqrel probes follow a fixed template with random pairs"]
    return res
