"""C07 Query plans and profile-guided scheduling preserve results."""
import copy, os, random, re
from vlib import runner
from vlib.core import Result
from . import progcommon as pc, diffcommon as dc
from gen import dl

SIPS = ["strict", "all-bound", "naive", "max-bound", "delta-max-bound", "max-ratio", "least-free", "least-free-vars", "input"]

RULE = ("case = one generated C01-fragment program (2-4 body atoms, recursion favoured) run by the real interpreter with the "
        "default join order (baseline) and (a) with a user .plan giving a random permutation of the body atoms for one / for "
        "every delta version of up to three recursive clauses, (b) under 4 of the 9 -PRamSIPS heuristics, (c) with "
        "--auto-schedule fed by the profile that -p --emit-statistics wrote for the same program; oracle = every output CSV "
        "equal as a set to the baseline output, no abort, a valid plan is not rejected. non-trivial = distinct program with "
        "derived tuples whose --show=transformed-ram differs from the baseline's for at least one variant.")

SOUFFLE = [None]


def cfg_fn(rng):
    cfg = dc.base_cfg(rng)
    cfg["p_recursive"] = 0.85
    cfg["body_atoms"] = (2, 4)
    cfg["p_disj"] = 0.05
    return cfg


def top_atoms(c):
    return [l for l in c.body if isinstance(l, dl.Atom)]


def plannable(prog):
    """(clause index, number of top-level atoms, number of versions) of recursive single-head clauses without disjunction"""
    comp = dl.sccs(prog)
    out = []
    for i, c in enumerate(prog.clauses):
        if len(c.heads) != 1 or c.subsume is not None or any(isinstance(l, dl.Disj) for l in c.body):
            continue
        ats = top_atoms(c)
        nver = sum(1 for a in ats if comp.get(a.rel) == comp.get(c.heads[0].rel))
        if nver >= 1 and len(ats) >= 2:
            out.append((i, len(ats), nver))
    return out


def plan_errkey(err):
    if "Invalid execution order in plan (expected" in err:
        return "plan-atom-count"
    if "execution plan for version" in err and "permitted" in err:
        return "plan-version"
    return ""


def fragile(c):
    """clauses whose number of body atoms AST transformations change (materialised aggregates, duplicate or nullary atoms)"""
    has_aggr = []
    for l in list(c.heads) + list(c.body):
        dl.walk_lit_terms(l, lambda t: has_aggr.append(1) if isinstance(t, dl.Aggr) else None)
    ats = [dl.fmt_atom(a) for a in top_atoms(c)]
    return bool(has_aggr) or len(set(ats)) != len(ats) or any(not a.args for a in top_atoms(c))


def with_plans(prog, rng, every_version):
    q = copy.deepcopy(prog)
    cands = plannable(q)
    rng.shuffle(cands)
    if rng.random() < 0.75:
        cands = [x for x in cands if not fragile(q.clauses[x[0]])] or cands
    desc = []
    for (i, n, nver) in cands[:3]:
        plan = {}
        for v in (range(nver) if every_version else [rng.randrange(nver)]):
            order = list(range(1, n + 1))
            for _ in range(4):
                rng.shuffle(order)
                if order != list(range(1, n + 1)):
                    break
            plan[v] = tuple(order)
        q.clauses[i].plan = plan
        desc.append("c%d:%s" % (i, plan))
    return q, desc


def variants(prog, text, rng, d):
    out = []
    if plannable(prog):
        for every in (False, True):
            q, desc = with_plans(prog, rng, every)
            out.append(dict(name="plan " + " ".join(desc), cls="plan", prog=dl.fmt_program(q), errkey=plan_errkey))
    for h in rng.sample(SIPS, 4):
        out.append(dict(name="RamSIPS " + h, cls="sips=" + h, args=["-PRamSIPS:" + h]))
    # auto-schedule from the profile of the same program (written by the preparatory run)
    out.append(dict(name="auto-schedule", cls="auto-schedule", pre=["-p", "prof.json", "--emit-statistics"], args=["--auto-schedule=prof.json"]))
    if rng.random() < 0.5:
        out.append(dict(name="auto-schedule -j4", cls="auto-schedule", pre=["-p", "prof4.json", "--emit-statistics", "-j4"],
                        args=["--auto-schedule=prof4.json", "-j4"]))
    return out


BASE_RAM = {}


def probe(v, run, d, od):
    if d not in BASE_RAM:
        BASE_RAM.clear()
        r0 = runner.run_souffle(SOUFFLE[0], d, args=["--show=transformed-ram"], timeout=120, outdir="base")
        BASE_RAM[d] = r0.out
    pname = "p.dl"
    if v.get("prog") is not None:
        with open(os.path.join(d, "pq.dl"), "w") as f:
            f.write(v["prog"])
        pname = "pq.dl"
    r = runner.run_souffle(SOUFFLE[0], d, args=list(v.get("args", ())) + ["--show=transformed-ram"], timeout=120, outdir="base", prog=pname)
    return r.out != BASE_RAM[d]


def worker(arg):
    seed, souffle = arg
    SOUFFLE[0] = souffle
    return dc.run_case("C07", seed, souffle, variants, cfg_fn=cfg_fn, probe=probe)


def check(tier, seed):
    t = pc.trees("plain", "san")
    n = 120 if tier == "quick" else 600
    nsan = 8 if tier == "quick" else 40
    res = Result("exploration")
    res.rule = RULE
    base = seed * 1000000 + (0 if tier == "quick" else 50000) + 700000
    recs = runner.pmap(worker, [(base + i, t["plain"]) for i in range(n)] + [(base + n + i, t["san"]) for i in range(nsan)])
    dc.finish("C07", recs, res, n)
    res.assumptions = ["interpreter only", "programs are samples of the generator's distribution",
                       "plans are random permutations (not all permutations) of up to three recursive clauses per program"]
    return res
