"""C14 Arbitrary program text never crashes the compiler."""
import os, random, re, glob
from vlib import runner, build
from vlib.core import Result
from . import progcommon as pc, diffcommon as dc
from gen import dl, progen

RULE = ("case = one mutated program text: a seed program (an include-free file of /repo/tests or a freshly generated program) "
        "changed by 1-6 token-level edits (delete, insert, substitute, duplicate, swap, splice from another program, "
        "numeric/string literal replacement) or, for one case in eight, byte-level noise; run through the whole front end "
        "without evaluation (`souffle --show=transformed-ram`: scanner, parser, semantic checks, AST pipeline, AST->RAM, RAM "
        "pipeline) and, for a third of the cases, through the synthesiser (`-g`). oracle = exit status 0 or 1 and no signal, "
        "assertion, uncaught exception, sanitizer report; a run that exceeds the watchdog twice (60 s, then 360 s) counts as "
        "a hang. non-trivial = distinct mutant that got past the parser (no syntax error) - those reach the semantic checks "
        "and transformations.")

TOKEN = re.compile(r'"(?:[^"\\\n]|\\.)*"|choice-domain|<:|\.[a-z_]+|[A-Za-z_?@][A-Za-z_0-9?@]*|\d+\.\d+|0x[0-9a-fA-F]+|0b[01]+|\d+[uf]?|:-|<=|>=|!=|::|\S', re.S)
POOL = [":-", ".", ",", ";", "(", ")", "[", "]", "{", "}", "!", "_", "=", "!=", "<", "<=", ">", ">=", ":", "<:", "|", "+", "-", "*", "/", "%", "^",
        "$", "nil", "count", "sum", "min", "max", "mean", "range", "as", "cat", "ord", "strlen", "substr", "to_number", "to_string",
        "band", "bor", "bxor", "bshl", "bshr", "bnot", "land", "lor", "lnot", "true", "false", "autoinc", "number", "symbol", "unsigned", "float",
        ".decl", ".type", ".input", ".output", ".printsize", ".limitsize", ".plan", ".comp", ".init", ".functor", ".pragma", ".override", ".lattice",
        "inline", "eqrel", "brie", "btree", "btree_delete", "magic", "no_magic", "no_inline", "overridable", "choice-domain", "debug_delta",
        "0", "1", "-1", "2147483647", "4294967296", "0x7fffffff", "1.5", "\"\"", "\"a\"", "x", "y", "z", "r0", "e0"]

IDENT = re.compile(r"[A-Za-z_?][A-Za-z_0-9?]*")
NUM = re.compile(r"\d+\.\d+|0x[0-9a-fA-F]+|0b[01]+|\d+[uf]?")
CMPS = ["=", "!=", "<", "<=", ">", ">="]
ARITH = ["+", "-", "*", "/", "%", "^", "band", "bor", "bxor", "bshl", "bshr", "bshru", "land", "lor", "lxor"]
QUALS = ["inline", "eqrel", "brie", "btree", "btree_delete", "magic", "no_magic", "no_inline", "overridable"]
AGGS = ["count", "sum", "min", "max", "mean"]
TYPES = ["number", "symbol", "unsigned", "float"]
KEYWORDS = set(ARITH + QUALS + AGGS + TYPES + ["nil", "as", "range", "cat", "ord", "strlen", "substr", "to_number", "to_string", "to_float",
                "to_unsigned", "bnot", "lnot", "true", "false", "autoinc", "contains", "match", "debug_delta", "stateful", "choice"])

_CORPUS = []


def corpus():
    if _CORPUS:
        return _CORPUS
    files = sorted(glob.glob(os.path.join(build.REPO, "tests", "**", "*.dl"), recursive=True))
    for f in files:
        try:
            with open(f, errors="replace") as fh:
                t = fh.read()
        except OSError:
            continue
        if "#include" in t or "#define" in t or len(t) > 6000 or len(t) < 20:
            continue
        _CORPUS.append(t)
    return _CORPUS


def strip_comments(t):
    t = re.sub(r"/\*.*?\*/", " ", t, flags=re.S)
    return re.sub(r"//[^\n]*", " ", t)


def mutate(rng, text, other):
    if rng.random() < 0.125:
        b = bytearray(text.encode("utf-8", "replace"))
        for _ in range(rng.randint(1, 4)):
            if not b:
                break
            i = rng.randrange(len(b))
            x = rng.random()
            if x < 0.4:
                b[i] = rng.randrange(256)
            elif x < 0.7:
                del b[i]
            else:
                b.insert(i, rng.choice(b"\x00\xff\"\\\n(){}[].,:-_ 09azAZ"))
        return b.decode("utf-8", "replace")
    toks = TOKEN.findall(strip_comments(text))
    otoks = TOKEN.findall(strip_comments(other))
    if not toks:
        return text
    idents = [t for t in toks if IDENT.fullmatch(t) and t not in KEYWORDS] or ["x"]
    for _ in range(rng.choice([1, 1, 1, 2, 2, 3, 4, 6])):
        if not toks:
            break
        i = rng.randrange(len(toks))
        t = toks[i]
        x = rng.random()
        if x < 0.45:
            # same-class substitution keeps the text parseable, so the mutant reaches the semantic checks and transformers
            if IDENT.fullmatch(t) and t not in KEYWORDS:
                toks[i] = rng.choice(idents) if rng.random() < 0.8 else rng.choice(["_", "nil", "zz_new"])
            elif NUM.fullmatch(t):
                toks[i] = rng.choice(["0", "1", "-1", "2", "2147483647", "-2147483648", "4294967295", "4294967296", "0x7fffffff", "0b11", "1.5", "3u", "99999999999"])
            elif t.startswith('"'):
                toks[i] = rng.choice(['""', '"a"', '"\\n"', '"long string with spaces"', '"1"'])
            elif t in CMPS:
                toks[i] = rng.choice(CMPS)
            elif t in ARITH:
                toks[i] = rng.choice(ARITH)
            elif t in QUALS:
                toks[i] = rng.choice(QUALS)
            elif t in AGGS:
                toks[i] = rng.choice(AGGS)
            elif t in TYPES:
                toks[i] = rng.choice(TYPES)
            elif t.startswith(".") and len(t) > 1:
                toks[i] = rng.choice([".decl", ".input", ".output", ".printsize", ".limitsize", ".type", ".init", ".comp", ".plan"])
            else:
                toks[i] = rng.choice(POOL)
        elif x < 0.6 and IDENT.fullmatch(t) and t not in KEYWORDS:
            # wrap an identifier (often an argument) into a term
            v, w = t, rng.choice(idents)
            toks[i:i + 1] = TOKEN.findall(rng.choice([
                "(%s + 1)" % v, "- %s" % v, "[%s, %s]" % (v, w), "$A(%s)" % v, "as(%s, number)" % v, "as(%s, symbol)" % v, "_",
                "count : { %s(%s) }" % (w, v), "min %s : { %s(%s, _) }" % (v, w, v), "cat(%s, \"x\")" % v, "%s(%s)" % (w, v), "!%s(%s)" % (w, v),
                "range(%s, 3)" % v, "autoinc()", "@f(%s)" % v, "%s.%s" % (w, v), "(%s ; %s)" % (v, w), "to_number(%s)" % v, "ord(%s)" % v]))
        elif x < 0.72:
            # clause level: duplicate / delete / move the clause or directive around position i
            ends = [k for k, u in enumerate(toks) if u == "."]
            if len(ends) >= 2:
                e = rng.randrange(len(ends) - 1)
                lo, hi = ends[e] + 1, ends[e + 1] + 1
                seg = toks[lo:hi]
                y = rng.random()
                if y < 0.4:
                    toks[hi:hi] = seg
                elif y < 0.7:
                    del toks[lo:hi]
                else:
                    del toks[lo:hi]
                    k = rng.choice(ends)
                    k = min(k + 1, len(toks))
                    toks[k:k] = seg
        elif x < 0.78:
            del toks[i]
        elif x < 0.84:
            toks.insert(i, rng.choice(POOL) if rng.random() < 0.6 else rng.choice(toks))
        elif x < 0.88:
            toks.insert(i, toks[i])
        elif x < 0.92:
            j = rng.randrange(len(toks))
            toks[i], toks[j] = toks[j], toks[i]
        elif x < 0.97 and otoks:
            ends = [k for k, u in enumerate(otoks) if u == "."]
            if len(ends) >= 2:
                e = rng.randrange(len(ends) - 1)
                seg = otoks[ends[e] + 1:ends[e + 1] + 1]
                myends = [k for k, u in enumerate(toks) if u == "."] or [len(toks) - 1]
                k = rng.choice(myends) + 1
                toks[k:k] = seg
        else:
            j = min(len(toks), i + rng.randint(1, 8))
            del toks[i:j]
    out = []
    for t in toks:
        out.append(t)
        out.append("\n" if t == "." and rng.random() < 0.5 else " ")
    return "".join(out)


def worker(arg):
    seed, souffle = arg
    rng = random.Random(seed)
    co = corpus()
    if rng.random() < 0.35:
        prog = progen.generate(seed, dc.base_cfg(rng))
        base = dl.fmt_program(prog)
    else:
        base = rng.choice(co)
    other = rng.choice(co)
    text = mutate(rng, base, other)
    rec = dict(seed=seed, hash=runner.prog_hash(text), features=[], counts={"mutants": 1})
    d = runner.case_dir("C14", seed)
    rec["dir"] = d
    with open(os.path.join(d, "p.dl"), "w", errors="surrogateescape") as f:
        f.write(text)
    modes = [("front-end", ["--show=transformed-ram"])]
    if seed % 3 == 0:
        modes.append(("synthesiser", ["-g", "out.cpp"]))
    viols = []
    parsed = False
    for mname, margs in modes:
        r = runner.run_souffle(souffle, d, args=margs, timeout=60)
        ck = runner.crash_key(r)
        if ck == "timeout":
            r = runner.run_souffle(souffle, d, args=margs, timeout=360)
            ck = runner.crash_key(r)
            if ck == "timeout":
                ck = "hang"
        rec["counts"]["runs"] = rec["counts"].get("runs", 0) + 1
        if r.rc == 0:
            rec["counts"]["accepted"] = rec["counts"].get("accepted", 0) + 1
        if "syntax error" not in (r.err or "") and "unexpected" not in (r.err or ""):
            parsed = True
        if ck is not None:
            viols.append(("%s:%s" % (mname if mname != "front-end" or not ck.startswith("hang") else "front-end", ck),
                          "souffle %s died / hung on program text (%s)\n%s\n--- input ---\n%s" % (" ".join(margs), ck, (r.err or "")[-2500:], text[:6000])))
            break
    rec["nontrivial"] = parsed
    if parsed:
        rec["counts"]["past_parser"] = 1
    if viols:
        rec.update(status="viol", viols=viols, program=text)
    else:
        rec.update(status="ok", sample=({"program": text[:800]} if seed % 500 == 0 else None))
    return rec


def check(tier, seed):
    t = pc.trees("plain", "san")
    n = 4000 if tier == "quick" else 24000
    nsan = 600 if tier == "quick" else 3000
    res = Result("exploration")
    res.rule = RULE
    base = seed * 1000000 + (0 if tier == "quick" else 100000) + 500000
    recs = runner.pmap(worker, [(base + i, t["plain"]) for i in range(n)] + [(base + n + i, t["san"]) for i in range(nsan)])
    pc.collect("C14", recs, res)
    res.min_nontrivial = n // 10
    res.extra["corpus_files"] = len(corpus())
    res.assumptions = ["'all byte strings' is sampled by token mutation of the repository's test programs and generated programs",
                       "no evaluation is performed (a valid program may legitimately not terminate); 'never hangs' is restated as: the front end ends within 360 s"]
    return res
