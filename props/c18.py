"""C18 Fact input accepts exactly the valid, in-range values."""
import os, random, re, struct
from vlib import runner
from vlib.core import Result
from . import progcommon as pc, tmpl

RULE = ("three kinds of cases. (a) field: one fact file for `.decl r(x:T) .input r` (T in number, unsigned, float, a record "
        "[number,symbol], an ADT) whose interesting line holds one field drawn from a per-type literal grammar with boundary "
        "values (+-2^31, 2^32-1, 2^32, 2^64, FLT_MAX neighbours, 1e39), signs, base prefixes, leading zeros, blanks, trailing "
        "garbage, empty fields, missing / extra columns, unbalanced brackets, CRLF; a Python classifier with exact integer / "
        "binary32 arithmetic says VALID (complete literal, representable), INVALID, or OPEN (forms the statement does not "
        "settle: '+5', blanks, hex/binary in a fact file, inf/nan, underflow). oracle: VALID must load and the echoed relation "
        "must hold exactly the denoted value; INVALID must end with exit 1 and an error naming the file and the line; OPEN may "
        "go either way but an accepted field must store the value it denotes; never a crash or hang. (b) constant: the same "
        "literals as numeric constants in program text. (c) bytes: a fact file of random / mutated bytes for a random "
        "signature: exit 0 or 1, no crash, no hang. non-trivial = distinct case whose field is VALID or INVALID (a decided "
        "expectation was checked).")

I32MIN, I32MAX, U32MAX = -2 ** 31, 2 ** 31 - 1, 2 ** 32 - 1
FLT_MAX = 3.4028234663852886e38


def f32(x):
    try:
        return struct.unpack("<f", struct.pack("<f", x))[0]
    except OverflowError:
        return float("inf") if x > 0 else float("-inf")


def classify(kind, s):
    """-> ("VALID", value) | ("INVALID", None) | ("OPEN", value or None)"""
    if kind == "number":
        if re.fullmatch(r"-?[0-9]+", s):
            v = int(s)
            return ("VALID", v) if I32MIN <= v <= I32MAX else ("INVALID", None)
        if re.fullmatch(r"\+[0-9]+", s):
            v = int(s)
            return ("OPEN", v) if I32MIN <= v <= I32MAX else ("INVALID", None)
        if re.fullmatch(r"\s*-?[0-9]+\s*", s):
            v = int(s)
            return ("OPEN", v) if I32MIN <= v <= I32MAX else ("INVALID", None)
        if re.fullmatch(r"-?0[xX][0-9a-fA-F]+|-?0[bB][01]+", s):
            return ("OPEN", None)
        return ("INVALID", None)
    if kind == "unsigned":
        if re.fullmatch(r"[0-9]+", s):
            v = int(s)
            return ("VALID", v) if 0 <= v <= U32MAX else ("INVALID", None)
        if re.fullmatch(r"\+[0-9]+|\s*[0-9]+\s*", s):
            v = int(s)
            return ("OPEN", v) if 0 <= v <= U32MAX else ("INVALID", None)
        if re.fullmatch(r"0[xX][0-9a-fA-F]+|0[bB][01]+", s):
            return ("OPEN", None)
        if re.fullmatch(r"[0-9]+u", s):
            return ("OPEN", None)
        return ("INVALID", None)
    if kind == "float":
        if re.fullmatch(r"-?([0-9]+(\.[0-9]*)?|\.[0-9]+)([eE][-+]?[0-9]+)?", s):
            v = float(s)
            w = f32(v)
            if w in (float("inf"), float("-inf")):
                return ("INVALID", None)          # out of range for binary32
            if v != 0.0 and abs(v) < 1.1754943508222875e-38:
                return ("OPEN", None)             # underflow / denormal
            return ("VALID", w)
        if re.fullmatch(r"[-+]?(inf|infinity|nan)", s, flags=re.I) or re.fullmatch(r"\+.*|\s+.*|.*\s+|-?0[xX][0-9a-fA-F.]+(p[-+]?[0-9]+)?", s):
            return ("OPEN", None)
        return ("INVALID", None)
    raise ValueError(kind)


NUM_FIELDS = ["0", "1", "-1", "7", "-0", "007", "2147483647", "-2147483648", "2147483648", "-2147483649", "4294967295", "4294967296", "4294967297",
              "8589934597", "18446744073709551615", "18446744073709551616", "-18446744073709551617", "99999999999999999999999999", "+5", "+0", " 5", "5 ", "\t5",
              "0x10", "0b101", "-0x1", "0x", "1e3", "1.0", "1.", "5a", "a5", "5-", "--5", "- 5", "", " ", "-", "+", "1,2", "1 2", "0x7fffffff", "0xffffffff",
              "0x100000000", "5u", "１２", "1_000", "nil", "[1]", "NaN", "٣"]
FLT_FIELDS = ["0", "0.0", "-0.0", "1.5", "-2.25", ".5", "5.", "1e3", "1E3", "1e+3", "1e-3", "1.5e10", "3.4028234e38", "3.4028235e38", "3.4028236e38", "3.5e38", "1e39",
              "-1e39", "1e-50", "1e-45", "1.17549435e-38", "0x1p3", "inf", "-inf", "nan", "NaN", "+1.5", " 1.5", "1.5 ", "1.5f", "1,5", "1.5.2", "e5", "1e", "1e+", "",
              "-", ".", "--1.5", "1.5x", "abc", "16777217", "0.1", "123456789012345678901234567890"]


def gen_field_case(rng):
    kind = rng.choice(["number", "number", "unsigned", "unsigned", "float"])
    pool = FLT_FIELDS if kind == "float" else NUM_FIELDS
    if rng.random() < 0.3:
        # random numeral around a boundary
        if kind == "float":
            s = "%s%d.%d%s" % (rng.choice(["", "-"]), rng.randint(0, 10 ** rng.randint(1, 40)), rng.randint(0, 999), rng.choice(["", "e%d" % rng.randint(-50, 45)]))
        else:
            b = rng.choice([0, 2 ** 31, 2 ** 32, 2 ** 63, 2 ** 64, -2 ** 31, -2 ** 32])
            s = str(b + rng.randint(-3, 3))
    else:
        s = rng.choice(pool)
    return kind, s


def fmt_value(kind, v):
    return str(v)


def field_worker(seed, souffle):
    rng = random.Random(seed)
    kind, s = gen_field_case(rng)
    verdict, value = classify(kind, s)
    two_col = rng.random() < 0.3
    crlf = rng.random() < 0.1
    nl = "\r\n" if crlf else "\n"
    before = rng.randint(0, 2)
    lines = []
    good = {"number": "3", "unsigned": "3", "float": "3.5"}[kind]
    for i in range(before):
        lines.append(good + ("\tx" if two_col else ""))
    lines.append(s + ("\tx" if two_col else ""))
    lineno = before + 1
    data = nl.join(lines) + nl
    if "\n" in s or "\t" in s and not s.strip() == s:
        pass
    sig = "x:%s" % kind + (", y:symbol" if two_col else "")
    text = ".decl r(%s)\n.input r\n.decl o(x:%s)\n.output o\no(x) :- r(x%s).\n" % (sig, kind, ", _" if two_col else "")
    rec = dict(seed=seed, hash=runner.prog_hash(kind + "|" + s + "|" + str(two_col) + str(crlf) + str(before)), features=["field-" + kind, "expect-" + verdict], counts={"field_cases": 1})
    d = tmpl.setup_case("C18", seed, text)
    rec["dir"] = d
    with open(os.path.join(d, "r.facts"), "w", newline="") as f:
        f.write(data)
    r, ck = tmpl.run(souffle, d, timeout=60)
    viols = []
    where = "%s column, field %r (line %d of r.facts%s%s), classified %s" % (kind, s, lineno, ", two columns" if two_col else "", ", CRLF" if crlf else "", verdict)
    fieldclass = re.sub(r"[0-9]", "9", s)[:24]
    K = lambda k: "field:%s:%s:%s" % (kind, k, fieldclass)
    if crlf and verdict == "VALID" and not two_col:
        verdict = "OPEN"          # the carriage return becomes part of the last field: the statement does not settle CRLF files
    if ck is not None:
        viols.append((K("crash:" + ck), "souffle died while loading facts (%s): %s\n%s" % (ck, where, r.err[-1500:])))
    else:
        accepted = r.rc == 0
        stored = None
        if accepted:
            rows = tmpl.read_rows(d, "o", ints=False)
            vals = [x[0] for x in (rows or [])]
            # the echoed relation holds the good lines' value too; find what the interesting line stored
            others = [good] * before
            rest = list(vals)
            for g in set(others):
                gv = "3" if kind != "float" else "3.5"
                if gv in rest:
                    rest.remove(gv)
            stored = rest[0] if rest else (("3" if kind != "float" else "3.5") if before else None)
        if verdict == "VALID":
            if not accepted:
                viols.append((K("valid-rejected"), "a complete, in-range literal is rejected (exit %s): %s\n%s" % (r.rc, where, r.err[-800:])))
            else:
                ok = stored is not None and same_value(kind, stored, value)
                if not ok:
                    viols.append((K("stored-other-value"), "the loaded value is %r, the field denotes %r: %s" % (stored, value, where)))
        elif verdict == "INVALID":
            if accepted:
                viols.append((K("invalid-accepted"), "a field that is not a complete in-range literal is accepted (stored %r): %s" % (stored, where)))
            else:
                if r.rc != 1:
                    viols.append((K("exit-%s" % r.rc), "rejected with exit status %s instead of 1: %s\n%s" % (r.rc, where, r.err[-600:])))
                if "r.facts" not in r.err or not re.search(r"line %d\b" % lineno, r.err):
                    viols.append((K("error-without-file-and-line"), "the error does not name the file and line %d: %s\n%s" % (lineno, where, r.err[-600:])))
        else:
            if accepted and value is not None and stored is not None and not same_value(kind, stored, value):
                viols.append((K("stored-other-value"), "an accepted field stores %r but denotes %r: %s" % (stored, value, where)))
            if not accepted and r.rc != 1:
                viols.append((K("exit-%s" % r.rc), "rejected with exit status %s instead of 1: %s" % (r.rc, where)))
    rec["nontrivial"] = verdict in ("VALID", "INVALID")
    if viols:
        rec.update(status="viol", viols=viols[:2], program=text + "--- r.facts ---\n" + data)
    else:
        rec.update(status="ok", sample=({"field": s, "type": kind, "expected": verdict} if seed % 200 == 0 else None))
    return rec


def same_value(kind, printed, value):
    try:
        if kind in ("number", "unsigned"):
            return int(printed) == value
        p = float(printed)
        return f32(p) == value or (p == value)
    except ValueError:
        return False


def const_worker(seed, souffle):
    rng = random.Random(seed)
    kind, s = gen_field_case(rng)
    while not re.fullmatch(r"-?[0-9]+(\.[0-9]+)?", s):
        kind, s = gen_field_case(rng)
    verdict, value = classify(kind, s)
    text = ".decl o(x:%s)\n.output o\no(%s).\n" % (kind, s if not s.startswith("-") else "(%s)" % s)
    if s.startswith("-"):
        text = ".decl o(x:%s)\n.output o\no(%s).\n" % (kind, s)
    rec = dict(seed=seed, hash=runner.prog_hash(text), features=["constant-" + kind, "expect-" + verdict], counts={"constant_cases": 1})
    d = tmpl.setup_case("C18", seed, text)
    rec["dir"] = d
    r, ck = tmpl.run(souffle, d, timeout=60)
    viols = []
    where = "%s constant %s in program text, classified %s" % (kind, s, verdict)
    K = lambda k: "constant:%s:%s:%s" % (kind, k, re.sub(r"[0-9]", "9", s)[:24])
    if ck is not None:
        viols.append((K("crash:" + ck), "souffle died (%s): %s\n%s" % (ck, where, r.err[-1200:])))
    else:
        accepted = r.rc == 0
        stored = None
        if accepted:
            rows = tmpl.read_rows(d, "o", ints=False)
            stored = rows[0][0] if rows else None
        if verdict == "VALID" and accepted and not (stored is not None and same_value(kind, stored, value)):
            viols.append((K("stored-other-value"), "the constant evaluates to %r, it denotes %r: %s" % (stored, value, where)))
        if verdict == "VALID" and not accepted:
            viols.append((K("valid-rejected"), "an in-range constant is rejected: %s\n%s" % (where, r.err[-600:])))
        if verdict == "INVALID" and accepted:
            viols.append((K("invalid-accepted"), "an out-of-range constant is accepted and evaluates to %r: %s" % (stored, where)))
    rec["nontrivial"] = verdict in ("VALID", "INVALID")
    if viols:
        rec.update(status="viol", viols=viols[:2], program=text)
    else:
        rec.update(status="ok", sample=None)
    return rec


SIGS = [("number",), ("unsigned",), ("float",), ("symbol",), ("number", "symbol"), ("P",), ("A",), ("L", "number"), ("symbol", "P", "float")]
SEEDLINES = {"number": ["5", "-3", "2147483647"], "unsigned": ["5", "4294967295"], "float": ["1.5", "-2e3"], "symbol": ["abc", "x y", ""],
             "P": ["[1, abc]", "nil", "[2, x]"], "L": ["[1, [2, nil]]", "nil"], "A": ["$N", "$I(3)", "$S(ab, 1.5)", "$R($N, [1, q])"]}


def bytes_worker(seed, souffle):
    rng = random.Random(seed)
    sig = rng.choice(SIGS)
    lines = []
    for _ in range(rng.randint(1, 6)):
        lines.append("\t".join(rng.choice(SEEDLINES[k]) for k in sig))
    data = bytearray(("\n".join(lines) + "\n").encode())
    for _ in range(rng.randint(1, 8)):
        x = rng.random()
        if not data:
            data = bytearray(b"\n")
        i = rng.randrange(len(data))
        if x < 0.3:
            data[i] = rng.randrange(256)
        elif x < 0.5:
            del data[i]
        elif x < 0.8:
            data.insert(i, rng.choice(b"[],$()\t\n\r\" \\-+.0123456789eEnilx\x00\xff"))
        else:
            j = rng.randrange(len(data))
            data[i:i] = data[min(i, j):max(i, j)][:20]
    opts = rng.choice(["", "", "(rfc4180=true)", "(delimiter=\",\")", "(headers=true)"])
    text = ".type P = [a:number, b:symbol]\n.type L = [h:number, t:L]\n.type A = N {} | I {v:number} | S {s:symbol, f:float} | R {a:A, p:P}\n"
    text += ".decl r(%s)\n.input r%s\n.decl n(c:number)\n.output n\nn(c) :- c = count : { r(%s) }.\n" % (
        ", ".join("c%d:%s" % (i, k) for i, k in enumerate(sig)), opts, ", ".join("_" for _ in sig))
    rec = dict(seed=seed, hash=runner.prog_hash(text + data.decode("latin1")), features=["bytes"], counts={"byte_cases": 1})
    d = tmpl.setup_case("C18", seed, text)
    rec["dir"] = d
    with open(os.path.join(d, "r.facts"), "wb") as f:
        f.write(bytes(data))
    r, ck = tmpl.run(souffle, d, timeout=60)
    viols = []
    if ck is not None:
        viols.append(("bytes:crash:%s" % ck, "souffle died / hung while loading a fact file of mutated bytes (%s), signature %s options %s\n%s\n--- r.facts ---\n%r" % (
            ck, sig, opts, r.err[-1500:], bytes(data)[:400])))
    elif r.rc not in (0, 1):
        viols.append(("bytes:exit-%s" % r.rc, "exit status %s\n%r" % (r.rc, bytes(data)[:400])))
    rec["nontrivial"] = True
    if r.rc == 0:
        rec["counts"]["byte_cases_accepted"] = 1
    if viols:
        rec.update(status="viol", viols=viols, program=text)
    else:
        rec.update(status="ok", sample=None)
    return rec


def worker(arg):
    seed, souffle = arg
    m = seed % 10
    if m < 5:
        return field_worker(seed, souffle)
    if m < 7:
        return const_worker(seed, souffle)
    return bytes_worker(seed, souffle)


def check(tier, seed):
    t = pc.trees("plain", "san")
    n = 3000 if tier == "quick" else 12000
    nsan = 500 if tier == "quick" else 2000
    res = Result("exploration")
    res.rule = RULE
    base = seed * 1000000 + (0 if tier == "quick" else 100000) + 180000
    recs = runner.pmap(worker, [(base + i, t["plain"]) for i in range(n)] + [(base + n + i, t["san"]) for i in range(nsan)])
    pc.collect("C18", recs, res)
    res.min_nontrivial = n // 20
    res.assumptions = ["end-to-end through the interpreter binary", "the literal grammars and the OPEN (abstain) classes are those written in props/c18.py classify()"]
    return res
