"""Shared pieces of the generated-program checks (C01-C24)."""
import os, shutil, sys
from vlib import build, runner
from vlib.core import Result, Violation, Inconclusive

from gen import dl, progen, refeval


def trees(*names):
    """(re)build the requested souffle trees from /repo's working tree; returns dict name -> souffle binary.
    The binaries are hard-linked into a directory private to this check run, so that a later relink of the tree (another
    check starting, a developer rebuild) cannot pull the executable away under the running cases."""
    import atexit
    out = {}
    for n in names:
        try:
            src = build.ensure_tree(n)
        except RuntimeError as e:
            raise Inconclusive(str(e))
        priv = os.path.join(build.BUILD, "run", "%d-%s" % (os.getpid(), n))
        shutil.rmtree(priv, ignore_errors=True)
        os.makedirs(priv)
        atexit.register(shutil.rmtree, priv, True)
        with build.Lock(n):
            for f in ("souffle", "souffleprof", "souffle-compile.py"):
                a = os.path.join(os.path.dirname(src), f)
                if os.path.exists(a):
                    try:
                        os.link(a, os.path.join(priv, f))
                    except OSError:
                        shutil.copy2(a, os.path.join(priv, f))
        out[n] = os.path.join(priv, "souffle")
    return out


def reference(prog, **kw):
    """-> (db, evaluator) or raises refeval.Undefined / refeval.RefError"""
    ev = refeval.Evaluator(prog, **kw)
    db = ev.run()
    return db, ev


def nontrivial_c01(prog, db):
    feats = prog.features
    derived = any(len(db[r.name]) > 0 for r in prog.rels if r.name.startswith("r") or r.name == "eq")
    interesting = feats & {"recursion", "negation", "range", "record", "adt", "record-construct", "adt-construct",
                           "aggregate-count", "aggregate-sum", "aggregate-min", "aggregate-max", "aggregate-mean"}
    return derived and bool(interesting)


def collect(prop, records, res, max_error_ratio=0.05, max_skip_ratio=0.5):
    """fold worker records into a Result"""
    n_err = 0
    skips = {}
    for rec in records:
        st = rec.get("status")
        res.evaluations += rec.get("evaluations", 1)
        for k, v in rec.get("counts", {}).items():
            res.extra.setdefault("counts", {})
            res.extra["counts"][k] = res.extra["counts"].get(k, 0) + v
        for f in rec.get("features", ()):
            res.extra.setdefault("constructs", {})
            res.extra["constructs"][f] = res.extra["constructs"].get(f, 0) + 1
        if st == "ok":
            if rec.get("nontrivial"):
                res.nontrivial.add(rec.get("hash"))
            if rec.get("sample") and len(res.samples) < 3:
                res.samples.append(rec["sample"])
            d = rec.get("dir")
            if d:
                shutil.rmtree(d, ignore_errors=True)
        elif st == "skip":
            skips[rec.get("reason", "?")] = skips.get(rec.get("reason", "?"), 0) + 1
            d = rec.get("dir")
            if d:
                shutil.rmtree(d, ignore_errors=True)
        elif st == "viol":
            for (key, detail) in rec["viols"]:
                res.violations.append(Violation(key, detail + "\ncase directory: %s" % rec.get("dir"),
                                                dict(dir=rec.get("dir"), seed=rec.get("seed"), program=rec.get("program", ""))))
            if rec.get("nontrivial"):
                res.nontrivial.add(rec.get("hash"))
        else:
            n_err += 1
            res.extra.setdefault("harness_errors", []).append(str(rec.get("detail"))[-600:])
            res.extra["harness_errors"] = res.extra["harness_errors"][:5]
    res.extra["skipped"] = skips
    total = max(1, len(records))
    if n_err > max_error_ratio * total:
        res.inconclusive = "%d of %d cases failed inside the harness: %s" % (n_err, total, res.extra.get("harness_errors", [""])[0])
    nskip = sum(skips.values())
    if nskip > max_skip_ratio * total:
        res.inconclusive = "%d of %d cases skipped: %r" % (nskip, total, skips)
    return res


def sample_of(prog, text, limit=1500):
    return {"program": text[:limit], "constructs": sorted(prog.features)}
