"""C15 Printing a parsed program and reparsing it is lossless."""
import os, random, re
from vlib import runner
from vlib.core import Result
from . import progcommon as pc, diffcommon as dc
from gen import dl, progen

RULE = ("case = one program: either a generated C01-fragment program decorated with random surface syntax (representation / "
        "inline / magic qualifiers, .plan on recursive clauses, .limitsize, string constants with escapes, hex/binary/float "
        "numerals) or a 'syntax zoo' program built from templates (functor declarations, choice-domain, subsumption, "
        "components, nested arithmetic with every intrinsic operator, as(), records, ADTs, aggregates, I/O directives with "
        "parameters). P1 = `souffle --show=initial-ast src`; oracle = (1) souffle accepts P1, (2) `--show=initial-ast P1` "
        "is byte-identical to P1, (3) running P1 yields the same output relations as running src. non-trivial = distinct "
        "program whose printed form differs from its source text and that derives tuples.")


def cfg_fn(rng):
    cfg = dc.base_cfg(rng)
    cfg["p_eqrel"] = 0.3
    return cfg


OPS_NUM = ["+", "-", "*", "/", "%", "^", "band", "bor", "bxor", "bshl", "bshr", "bshru", "land", "lor", "lxor"]


def zoo_expr(rng, depth, vars_):
    if depth <= 0 or rng.random() < 0.25:
        x = rng.random()
        if x < 0.5 and vars_:
            return rng.choice(vars_)
        if x < 0.6:
            return rng.choice(["0x1F", "0b101", "7", "0", "1", "12"])
        return str(rng.randint(0, 9))
    x = rng.random()
    if x < 0.7:
        op = rng.choice(OPS_NUM)
        a, b = zoo_expr(rng, depth - 1, vars_), zoo_expr(rng, depth - 1, vars_)
        if op in ("/", "%"):
            b = "(%s bor 1)" % b if rng.random() < 0.5 else "3"
        if op in ("bshl", "bshr", "bshru"):
            b = str(rng.randint(0, 5))
        if op == "^":
            a, b = rng.choice(vars_ + ["2"]) if vars_ else "2", str(rng.randint(0, 3))
        return "(%s %s %s)" % (a, op, b) if rng.random() < 0.7 else "%s %s %s" % (a, op, b)
    if x < 0.8:
        return "-(%s)" % zoo_expr(rng, depth - 1, vars_) if rng.random() < 0.5 else "-%s" % zoo_expr(rng, 0, vars_)
    if x < 0.86:
        return "bnot %s" % zoo_expr(rng, 0, vars_)
    if x < 0.9:
        return "lnot %s" % zoo_expr(rng, 0, vars_)
    if x < 0.95:
        return "%s(%s, %s)" % (rng.choice(["min", "max"]), zoo_expr(rng, depth - 1, vars_), zoo_expr(rng, depth - 1, vars_))
    return "strlen(to_string(%s))" % zoo_expr(rng, depth - 1, vars_)


STRS = ['a', '', 'x y', 'tab\\there', 'quote\\"inside', 'back\\\\slash', 'nl\\nline', 'café', '[br,ack]', 'semi;colon', "single'q"]


def zoo_program(seed):
    """a program exercising surface syntax the C01 generator does not emit; bounded, deterministic (-j1)"""
    rng = random.Random(seed)
    o = []
    feats = set()
    o.append(".type T <: number")
    o.append(".type S <: symbol")
    o.append(".type U = T | number")
    o.append(".type P = [a:number, b:symbol]")
    o.append(".type L = [h:number, t:L]")
    o.append(".type A = N {} | I {v:number} | B {x:number, y:A}")
    o.append(".decl n(x:number)%s" % rng.choice(["", " btree", " brie"]))
    o += ["n(%d)." % v for v in sorted(rng.sample(range(-5, 30), rng.randint(3, 9)))]
    o.append(".decl s(x:symbol)")
    o += ['s("%s").' % v for v in rng.sample(STRS, rng.randint(2, 6))]
    o.append(".decl e(a:number, b:number)%s" % rng.choice(["", " btree", " brie", " btree_delete"]))
    o += ["e(%d, %d)." % (rng.randint(0, 8), rng.randint(0, 8)) for _ in range(rng.randint(3, 10))]
    # arithmetic zoo
    for i in range(rng.randint(1, 4)):
        o.append(".decl a%d(x:number, y:number)" % i)
        o.append(".output a%d" % i)
        o.append("a%d(x, %s) :- n(x), x >= 0." % (i, zoo_expr(rng, rng.randint(1, 3), ["x"])))
        feats.add("arith-nesting")
    # comparison / string functors
    o.append(".decl t1(x:symbol, y:number)")
    o.append(".output t1")
    o.append('t1(cat(x, cat("-", x)), strlen(x)) :- s(x), %s.' % rng.choice(['contains("a", x)', 'match("a.*", x)', 'x != "zz"', 'ord(x) = ord(x)', 'substr(x, 0, 1) = substr(x, 0, 1)']))
    if rng.random() < 0.6:
        o.append(".decl t2(x:number)")
        o.append(".output t2")
        o.append('t2(to_number("12") + x) :- n(x), x = to_number(to_string(x)), x %s 3.' % rng.choice(["<", "<=", ">", ">=", "!=", "="]))
    # casts, records, adts
    if rng.random() < 0.7:
        o.append(".decl c1(x:T, p:P, l:L, a:A)")
        o.append(".output c1")
        o.append('c1(as(x, T), [x, "q"], [x, [x + 1, nil]], $B(x, $I(x))) :- n(x), x < 3.')
        o.append('c1(as(x, T), [y, z], nil, $N()) :- n(x), c1(_, [y, z], [_, [w, nil]], $B(_, $I(v))), w = v + 1, x = 4.')
        feats.add("records-adts-cast")
    # aggregates
    if rng.random() < 0.7:
        o.append(".decl g(k:number, c:number, m:number)")
        o.append(".output g")
        o.append("g(k, count : { e(k, _) }, %s y : { e(k, y), y %s k }) :- n(k), e(k, _)." % (rng.choice(["min", "max", "sum"]), rng.choice(["<", ">=", "!="])))
        if rng.random() < 0.5:
            o.append("g(0, c, m) :- c = count : { n(_) }, m = sum x * 2 : { n(x), x > 0 }.")
        feats.add("aggregates")
    # recursion + plan + limitsize
    if rng.random() < 0.8:
        q = rng.choice(["", " btree", " brie", " magic", " no_magic", " no_inline"])
        o.append(".decl p(x:number, y:number)%s" % q)
        o.append(".output p")
        o.append("p(x, y) :- e(x, y).")
        o.append("p(x, z) :- p(x, y), p(y, z), e(_, z).")
        if rng.random() < 0.6:
            o.append(".plan 0:(%s), 1:(%s)" % (rng.choice(["1,2,3", "2,1,3", "3,2,1"]), rng.choice(["1,2,3", "2,3,1", "3,1,2"])))
            feats.add("plan")
        if rng.random() < 0.3:
            o.append(".limitsize p(n=%d)" % rng.randint(1, 200))
            feats.add("limitsize")
    # inline
    if rng.random() < 0.5:
        o.append(".decl il(x:number) inline")
        o.append("il(x) :- n(x), x > 2.")
        o.append(".decl ilu(x:number)")
        o.append(".output ilu")
        o.append("ilu(x) :- il(x), !e(x, _).")
        feats.add("inline")
    # disjunction, negation, constraints
    o.append(".decl dj(x:number)")
    o.append(".output dj")
    o.append("dj(x) :- n(x), ( x < 2 ; x > 6, !e(x, x) ; e(x, _), x != 3 ).")
    # choice-domain (outputs compared at -j1: both runs are sequential and deterministic)
    if rng.random() < 0.5:
        o.append(".decl ch(x:number, y:number) choice-domain %s" % rng.choice(["x", "y", "x, y", "(x, y)"]))
        o.append(".output ch")
        o.append("ch(x, y) :- e(x, y).")
        feats.add("choice-domain")
    # subsumption
    if rng.random() < 0.5:
        o.append(".decl sb(x:number, c:number) btree_delete")
        o.append(".output sb")
        o.append("sb(x, y) :- e(x, y).")
        o.append("sb(x, c1) <= sb(x, c2) :- c2 < c1.")
        feats.add("subsumption")
    # eqrel
    if rng.random() < 0.4:
        o.append(".decl q(x:number, y:number) eqrel")
        o.append(".output q")
        o.append("q(x, y) :- e(x, y), x < 5.")
    # functor declaration (declared, not used: no library needed)
    if rng.random() < 0.5:
        o.append(".functor %s(%s):%s%s" % (rng.choice(["f", "my_fn"]), rng.choice(["x:number", "x:number, y:symbol", "a:float, b:unsigned", ""]),
                                            rng.choice(["number", "symbol", "float"]), rng.choice(["", " stateful"])))
        feats.add("functor-decl")
    # components
    if rng.random() < 0.6:
        o.append(".comp Base<K> { .decl r(x:K) overridable  r(x) :- n(x), x < 4. .decl o(x:K) .output o  o(x) :- r(x). }")
        o.append(".comp Derived : Base<number> { .override r  r(x) :- n(x), x > 4. }")
        o.append(".init b1 = Base<number>")
        o.append(".init d1 = Derived")
        if rng.random() < 0.5:
            o.append(".comp Outer { .comp Inner { .decl z(x:number) .output z  z(1). } .init in = Inner }")
            o.append(".init out = Outer")
        feats.add("components")
    # I/O directives with parameters
    if rng.random() < 0.6:
        o.append(".decl io1(x:number, y:symbol)")
        o.append('io1(x, y) :- n(x), s(y), x < 2.')
        o.append('.output io1(%s)' % rng.choice(['delimiter=","', 'IO=file, filename="io1.csv", delimiter="|"', 'rfc4180=true, delimiter=","', 'headers=true']))
        feats.add("io-params")
    # float / unsigned numerals
    if rng.random() < 0.6:
        o.append(".decl fl(x:float, u:unsigned)")
        o.append(".output fl")
        o.append("fl(%s, %s)." % (rng.choice(["1.5", "-0.25", "0.0"]), rng.choice(["0", "7", "0x10", "0b11", "4294967295", "12u"])))
        o.append("fl(x + 1.0, u) :- fl(x, u), x < 2.0, u %s 3." % rng.choice(["<", ">=", "!="]))
        feats.add("float-unsigned-literals")
    return "\n".join(o) + "\n", feats


QUALS = ["btree", "brie", "no_inline", "magic", "no_magic"]


def decorate(prog, text, rng):
    out = []
    for l in text.split("\n"):
        m = re.match(r"^\.decl (\w+)\((.*)\)\s*$", l)
        if m and rng.random() < 0.3 and "(" in l and m.group(2):
            l = l + " " + rng.choice(QUALS)
        out.append(l)
    return "\n".join(out)


def out_files(d, sub):
    p = os.path.join(d, sub)
    res = {}
    for fn in sorted(os.listdir(p)):
        if fn.endswith(".csv"):
            with open(os.path.join(p, fn), errors="surrogateescape") as f:
                lines = f.read().split("\n")
            res[fn] = sorted(lines)
    return res


def construct_tags(text):
    """constructs of the source text that known printer defects are keyed on"""
    tags = set()
    if re.search(r"\.override\b", text):
        tags.add("override")
    if re.search(r"\.functor\s+\w+\(\s*\)", text) or re.search(r"\.functor\s+\w+\([^)]*\)", text):
        tags.add("functor-decl")
    if re.search(r"\bbnot\b", text):
        tags.add("bnot")
    if re.search(r"\blnot\b", text):
        tags.add("lnot")
    for op in ("band", "bor", "bxor", "bshl", "bshr", "bshru", "land", "lor", "lxor"):
        if re.search(r"\b%s\b" % op, text):
            tags.add(op)
    if "^" in text:
        tags.add("pow")
    if re.search(r'\\["\\nt]', text):
        tags.add("string-escape")
    if re.search(r"\.limitsize", text):
        tags.add("limitsize")
    if re.search(r"choice-domain", text):
        tags.add("choice-domain")
    if re.search(r"\.comp\b", text):
        tags.add("comp")
    if re.search(r"<=\s*\w+\(", text):
        tags.add("subsumption")
    if re.search(r"\.(output|input)\s+\w+\(", text):
        tags.add("io-params")
    return tags


def worker(arg):
    seed, souffle = arg
    rng = random.Random(seed)
    zoo = seed % 2 == 1
    if zoo:
        text, feats = zoo_program(seed)
        prog = None
    else:
        prog = progen.generate(seed, cfg_fn(rng))
        text = decorate(prog, dl.fmt_program(prog), rng)
        feats = set(prog.features)
    rec = dict(seed=seed, hash=runner.prog_hash(text), features=sorted(feats) + (["zoo"] if zoo else ["generated"]), counts={})
    d = runner.case_dir("C15", seed)
    rec["dir"] = d
    if prog is not None:
        runner.write_case(d, prog, text=text)
    else:
        with open(os.path.join(d, "p.dl"), "w") as f:
            f.write(text)
    base = runner.run_souffle(souffle, d, args=["-j1"], outdir="base", timeout=120)
    if runner.crash_key(base) is not None or base.rc != 0:
        rec.update(status="skip", reason="baseline-" + (runner.crash_key(base) or "rejected").split(":")[0], detail=base.err[-600:])
        return rec
    viols = []
    tags = ",".join(sorted(construct_tags(text)))

    def V(key, detail):
        withtags = key.startswith(("not-fixpoint", "wrong-result", "run-printed"))
        viols.append((key + ("|" + tags if (tags and withtags) else ""), detail + "\n--- source ---\n" + text))

    r1 = runner.run_souffle(souffle, d, args=["--show=initial-ast"], outdir="base", timeout=60)
    if runner.crash_key(r1) is not None or r1.rc != 0:
        V("print:crash:%s" % (runner.crash_key(r1) or "exit%s" % r1.rc), "--show=initial-ast failed on an accepted program\n" + r1.err[-1500:])
    else:
        p1 = r1.out
        with open(os.path.join(d, "p1.dl"), "w") as f:
            f.write(p1)
        rec["counts"]["printed"] = 1
        r2 = runner.run_souffle(souffle, d, args=["--show=initial-ast"], prog="p1.dl", outdir="base", timeout=60)
        ck = runner.crash_key(r2)
        if ck is not None:
            V("reparse:crash:" + ck, "souffle died on its own printed program\n" + r2.err[-1500:] + "\n--- printed ---\n" + p1[:3000])
        elif r2.rc != 0:
            el = r2.err.split("\n")
            first, tok = "?", ""
            for i, l in enumerate(el):
                if l.startswith("Error"):
                    first = re.sub(r"\d+", "N", re.sub(r" in file .*", "", l))[:80]
                    if i + 2 < len(el) and "^" in el[i + 2]:
                        col = el[i + 2].index("^")
                        m = re.match(r"[A-Za-z_]+|\S{1,3}", el[i + 1][col:])
                        tok = m.group(0) if m else ""
                        if re.fullmatch(r"[A-Za-z_]\w*", tok) and tok not in ("stateful",):
                            tok = "<identifier>"
                    break
            V("reparse:rejected:%s@%s" % (first, tok), "the printed program does not parse again\n%s\n--- printed ---\n%s" % ("\n".join(el[:12]), p1[:3000]))
        else:
            p2 = r2.out
            if p2 != p1:
                a, b = p1.split("\n"), p2.split("\n")
                dif = [(x, y) for x, y in zip(a, b) if x != y][:4]
                V("not-fixpoint", "printing the printed program gives different text:\n  " + "\n  ".join("%r -> %r" % xy for xy in dif))
            r3 = runner.run_souffle(souffle, d, args=["-j1"], prog="p1.dl", outdir="v1", timeout=120)
            ck = runner.crash_key(r3)
            if ck is not None:
                V("run-printed:crash:" + ck, "the printed program dies when run\n" + r3.err[-1500:])
            elif r3.rc != 0:
                V("run-printed:error-exit", "the printed program is rejected when run\n" + r3.err[-1500:])
            else:
                o0, o1 = out_files(d, "base"), out_files(d, "v1")
                if o0 != o1:
                    bad = [k for k in sorted(set(o0) | set(o1)) if o0.get(k) != o1.get(k)]
                    V("wrong-result", "running the printed program gives different outputs in %s\n--- printed ---\n%s" % (bad[:6], p1[:3000]))
                rec["counts"]["outputs_compared"] = len(o0)
                rec["nontrivial"] = p1.strip() != text.strip() and any(len(v) > 1 for v in o0.values())
    if viols:
        rec.update(status="viol", viols=viols, program=text)
    else:
        rec.update(status="ok", sample=({"program": text[:1500]} if seed % 50 in (0, 1) else None))
    return rec


def check(tier, seed):
    t = pc.trees("plain", "san")
    n = 700 if tier == "quick" else 3500
    nsan = 40 if tier == "quick" else 160
    res = Result("exploration")
    res.rule = RULE
    base = seed * 1000000 + (0 if tier == "quick" else 50000) + 150000
    recs = runner.pmap(worker, [(base + i, t["plain"]) for i in range(n)] + [(base + n + i, t["san"]) for i in range(nsan)])
    pc.collect("C15", recs, res)
    res.min_nontrivial = n // 5
    res.assumptions = ["the surface syntax covered is what the C01 generator and the zoo templates emit (listed in coverage.constructs)",
                       "output comparison runs both programs at -j1"]
    return res
