"""C31 Symbol and record interning is a bijection under concurrency."""
from .dscommon import run_ds

RULE = ("two kinds of histories. (fly) 2-4 client threads call findOrInsert on one real ConcurrentFlyweight<MutexConcurrentLanes, string> "
        "with 1-8 lanes (several threads may share a lane), initial capacity 1-8 (so the table grows dozens of times), with or "
        "without the reserved first slot, keys drawn from a small shared pool (heavy duplicates); every call is followed at once by "
        "fetch(index). serial flavour: cooperative scheduler pre-empting at every load/store/edge of ConcurrentFlyweight.h and "
        "ConcurrentInsertOnlyHashMap.h, lane mutexes interposed. (omp) SymbolTableImpl.encode/decode and "
        "SpecializedRecordTable.pack/unpack (arities 0-6, generic-map creation included) called from inside OpenMP parallel "
        "regions of 2-8 threads (free, TSan, ASan+UBSan flavours). oracle over the recorded returns of all threads: equal values "
        "always got the same reference, different values different references; the decode / fetch / unpack right after the call "
        "and again after quiescence returns the value; inserted==true exactly once per distinct value; the reserved index 0 / nil "
        "reference is never returned for a real record; iteration after quiescence lists every interned value exactly once. "
        "distinct_nontrivial = distinct serial schedules + free-mode histories.")


def check(tier, seed):
    q = tier == "quick"
    plans = [
        dict(flavour="serial", label="serial-fly", args=["--mode", "fly", "--threads", 3, "--ops", 10, "--range", 12], total=10000 if q else 500000),
        dict(flavour="serial", label="serial-fly-4threads", args=["--mode", "fly", "--threads", 4, "--ops", 6, "--range", 5, "--budget", 8000000], total=5000 if q else 250000),
        dict(flavour="free", label="free-fly", args=["--mode", "fly", "--threads", 8, "--ops", 400, "--range", 300, "--fixed"], total=400 if q else 20000, chunk=25, timeout=300),
        dict(flavour="free", label="free-omp", args=["--mode", "omp", "--threads", 8, "--ops", 300, "--range", 400], total=600 if q else 30000, chunk=38, timeout=300),
        dict(flavour="tsan", label="tsan-omp", args=["--mode", "omp", "--threads", 6, "--ops", 150, "--range", 200], total=120 if q else 6000, chunk=8, timeout=900),
        dict(flavour="asan", label="asan-omp", args=["--mode", "omp", "--threads", 6, "--ops", 150, "--range", 200], total=200 if q else 10000, chunk=13, timeout=900),
        dict(flavour="asan", label="asan-fly", args=["--mode", "fly", "--threads", 6, "--ops", 200, "--range", 100, "--fixed"], total=100 if q else 5000, chunk=7, timeout=900),
    ]
    res = run_ds("C31", "h_fly", tier, seed, plans, RULE)
    res.assumptions = ["SymbolTableImpl / RecordTable pick their lane from the OpenMP thread number, so they are exercised by real OpenMP threads only (no serial scheduler)",
                       "x86-TSO hardware; weak-memory reorderings are visible only to ThreadSanitizer"]
    return res
