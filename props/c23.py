"""C23 A size limit truncates recursion soundly."""
import os, random, re
from vlib import runner
from vlib.core import Result
from . import progcommon as pc, diffcommon as dc
from gen import dl, progen, refeval

RULE = ("case = one generated recursive C01-fragment program in which one or two relations of one recursive stratum get a "
        "`.limitsize R(n=k)` directive, k drawn from {0,1,2,...} up to beyond the unlimited size; run by the real interpreter "
        "(-j1 or -j4). oracle, with U = the stratified least model of the program without the directive (Python reference "
        "evaluator): (1) every relation of the limited stratum is a subset of its U; (2) if every limited relation has "
        "|U(R)| < k, every output relation equals U; (3) if some limited relation reaches its limit in U (|U(R)| >= k), at least "
        "one limited relation R' holds >= its k' tuples or all limited relations equal U (the loop stops as soon as one limit "
        "is reached); (4) relations that do not depend on the limited stratum equal U. non-trivial = distinct program whose "
        "limit actually truncated the stratum (some relation is a proper subset of U).")


def cfg_fn(rng):
    cfg = dc.base_cfg(rng)
    cfg["p_recursive"] = 0.95
    cfg["p_eqrel"] = 0.0
    cfg["rec_guard"] = rng.choice([20, 40, 60])
    return cfg


def downstream(prog, seeds):
    out = set(seeds)
    changed = True
    while changed:
        changed = False
        for c in prog.clauses:
            if any(rn in out for rn, ctx in dl.clause_atoms(c)):
                for h in c.heads:
                    if h.rel not in out:
                        out.add(h.rel)
                        changed = True
    return out


def add_chain(prog, rng, shapes=None):
    """a transitive-closure component over a long chain plus random edges: many iterations, so that a limit really truncates"""
    V, A = dl.Var, dl.Atom
    m = rng.randint(4, 14)
    edges = {(i, i + 1) for i in range(m)} | {(rng.randint(0, m), rng.randint(0, m)) for _ in range(rng.randint(0, 4))}
    e = dl.Relation("lim_e", [("a0", dl.NUMBER), ("a1", dl.NUMBER)])
    e.facts = sorted(edges)
    p = dl.Relation("lim_p", [("a0", dl.NUMBER), ("a1", dl.NUMBER)], is_output=True)
    prog.rels += [e, p]
    prog.clauses.append(dl.Clause([A("lim_p", [V("x"), V("y")])], [A("lim_e", [V("x"), V("y")])]))
    shape = rng.choice(shapes or ["linear", "nonlinear", "mutual"])
    if shape == "linear":
        prog.clauses.append(dl.Clause([A("lim_p", [V("x"), V("z")])], [A("lim_p", [V("x"), V("y")]), A("lim_e", [V("y"), V("z")])]))
    elif shape == "nonlinear":
        prog.clauses.append(dl.Clause([A("lim_p", [V("x"), V("z")])], [A("lim_p", [V("x"), V("y")]), A("lim_p", [V("y"), V("z")])]))
    elif shape == "triple":
        # three recursive atoms: delta versions 0, 1 and 2; combinations (new, old, new) occur in every iteration
        prog.clauses.append(dl.Clause([A("lim_p", [V("x"), V("w")])], [A("lim_p", [V("x"), V("y")]), A("lim_p", [V("y"), V("z")]), A("lim_p", [V("z"), V("w")])]))
    elif shape == "quad-mutual":
        q = dl.Relation("lim_q", [("a0", dl.NUMBER), ("a1", dl.NUMBER)], is_output=True)
        prog.rels.append(q)
        prog.clauses.append(dl.Clause([A("lim_q", [V("x"), V("y")])], [A("lim_p", [V("x"), V("y")])]))
        prog.clauses.append(dl.Clause([A("lim_p", [V("x"), V("v")])], [A("lim_q", [V("x"), V("y")]), A("lim_p", [V("y"), V("z")]), A("lim_e", [V("z"), V("w")]), A("lim_q", [V("w"), V("v")])]))
    else:
        q = dl.Relation("lim_q", [("a0", dl.NUMBER), ("a1", dl.NUMBER)], is_output=True)
        prog.rels.append(q)
        prog.clauses.append(dl.Clause([A("lim_q", [V("x"), V("z")])], [A("lim_p", [V("x"), V("y")]), A("lim_e", [V("y"), V("z")])]))
        prog.clauses.append(dl.Clause([A("lim_p", [V("x"), V("y")])], [A("lim_q", [V("x"), V("y")])]))
    prog.features.add("limit-chain-" + shape)


def worker(arg):
    seed, souffle = arg
    rng = random.Random(seed)
    prog = progen.generate(seed, cfg_fn(rng))
    chain = rng.random() < 0.7
    if chain:
        add_chain(prog, rng)
    text0 = dl.fmt_program(prog)
    rec = dict(seed=seed, hash=runner.prog_hash(text0), features=sorted(prog.features), counts={})
    try:
        db, ev = pc.reference(prog)
    except refeval.Undefined:
        rec.update(status="skip", reason="left-defined-domain")
        return rec
    except refeval.RefError as e:
        rec.update(status="error", detail="reference evaluator: %s\n%s" % (e, text0))
        return rec
    comp = dl.sccs(prog)
    # recursive strata: relations that occur in the body of a clause whose head is in the same component
    recrels = set()
    for c in prog.clauses:
        for h in c.heads:
            for rn, ctx in dl.clause_atoms(c):
                if comp.get(rn) == comp.get(h.rel):
                    recrels.add(h.rel)
                    recrels.add(rn)
    recrels = sorted(r for r in recrels if r != "eq")
    if not recrels:
        rec.update(status="skip", reason="no-recursive-stratum")
        return rec
    r0 = "lim_p" if chain and rng.random() < 0.8 else rng.choice(recrels)
    scc = sorted(r for r in recrels if comp[r] == comp[r0])
    limited = {r0}
    if len(scc) > 1 and rng.random() < 0.4:
        limited.add(rng.choice(scc))
    limits = {}
    for r in sorted(limited):
        n = len(db[r])
        limits[r] = rng.choice([0, 1, 2, max(1, n // 2), max(1, n - 1), n, n + 1, n + 5, rng.randint(1, max(2, 2 * n))])
    text = text0 + "\n" + "\n".join(".limitsize %s(n=%d)" % (r, k) for r, k in sorted(limits.items())) + "\n"
    rec["hash"] = runner.prog_hash(text)
    d = runner.case_dir("C23", seed)
    rec["dir"] = d
    runner.write_case(d, prog, text=text)
    args = ["-j4"] if seed % 4 == 0 else ["-j1"]
    # the same program without the limits: if souffle rejects it or does not agree with the model there, the case belongs to
    # C13 / C01 (e.g. their recorded findings on aggregates that become recursive) and says nothing about size limits
    with open(os.path.join(d, "p0.dl"), "w") as f:
        f.write(text0)
    base = runner.run_souffle(souffle, d, args=args, timeout=180, prog="p0.dl", outdir="unlimited")
    if runner.crash_key(base) is not None or base.rc != 0:
        rec.update(status="skip", reason="unlimited-program-" + (runner.crash_key(base) or "rejected (C13)").split(":")[0])
        return rec
    bouts, bproblems = runner.read_outputs(d, prog, outdir="unlimited")
    if bproblems or runner.diff_outputs(prog, bouts, db, ("souffle", "model")):
        rec.update(status="skip", reason="unlimited-program-differs-from-model (C01)")
        return rec
    run = runner.run_souffle(souffle, d, args=args, timeout=180)
    ck = runner.crash_key(run)
    if ck == "timeout":
        run = runner.run_souffle(souffle, d, args=args, timeout=900)
        ck = runner.crash_key(run)
    viols = []
    desc = "limits %s; unlimited sizes %s" % (limits, {r: len(db[r]) for r in scc})
    if ck is not None:
        viols.append(("crash:" + ck, "interpreter died on a program with .limitsize (%s)\n%s\n%s" % (ck, run.err[-2500:], text)))
    elif run.rc != 0:
        errs = [l for l in run.err.split("\n") if l.startswith("Error")]
        viols.append(("error-exit", "program with .limitsize rejected: %s\n%s" % (errs[:3], text)))
    else:
        outs, problems = runner.read_outputs(d, prog)
        for p in problems:
            viols.append(("output:" + p.split(" ")[0], p + "\n" + text))
        dep = downstream(prog, scc)
        truncated = False
        for r in prog.rels:
            if not r.is_output or r.name not in outs:
                continue
            got, want = outs[r.name], db[r.name]
            if r.name in scc:
                if not got <= want:
                    viols.append(("not-a-subset", "%s holds tuples that the unlimited program does not derive: %s (%s)\n%s" % (
                        r.name, sorted(got - want, key=repr)[:4], desc, text)))
                if got != want:
                    truncated = True
            elif r.name not in dep:
                if got != want:
                    viols.append(("unrelated-relation-changed", "%s does not depend on the limited stratum but differs from the model: only souffle %s, only model %s (%s)\n%s" % (
                        r.name, sorted(got - want, key=repr)[:4], sorted(want - got, key=repr)[:4], desc, text)))
        below = all(len(db[r]) < k for r, k in limits.items())
        if below:
            diffs = runner.diff_outputs(prog, outs, db, ("souffle", "model"))
            if diffs:
                viols.append(("below-limit-but-differs", "every limited relation stays below its limit, yet the outputs differ from the unlimited result (%s):\n  %s\n%s" % (
                    desc, "\n  ".join(diffs), text)))
        else:
            reached = [r for r, k in limits.items() if r in outs and len(outs[r]) >= k]
            # a limited relation that is not an output cannot be seen reaching its limit: no verdict on this clause then
            unobservable = [r for r in limits if r not in outs]
            alleq = all(outs.get(r) == db[r] for r in scc if r in outs)
            if not reached and not alleq and not unobservable:
                viols.append(("stopped-below-limit", "the stratum was truncated although no limited relation reached its limit: sizes %s (%s)\n%s" % (
                    {r: len(outs[r]) for r in scc if r in outs}, desc, text)))
        rec["counts"]["limit_reached_in_model"] = 0 if below else 1
        rec["counts"]["truncated_runs"] = 1 if truncated else 0
        rec["nontrivial"] = truncated
    if viols:
        rec.update(status="viol", viols=viols, program=text)
    else:
        rec.update(status="ok", sample=pc.sample_of(prog, text) if seed % 50 == 0 else None)
    return rec


def check(tier, seed):
    t = pc.trees("plain", "san")
    n = 600 if tier == "quick" else 3000
    nsan = 40 if tier == "quick" else 160
    res = Result("exploration")
    res.rule = RULE
    base = seed * 1000000 + (0 if tier == "quick" else 50000) + 230000
    recs = runner.pmap(worker, [(base + i, t["plain"]) for i in range(n)] + [(base + n + i, t["san"]) for i in range(nsan)])
    pc.collect("C23", recs, res)
    res.min_nontrivial = n // 20
    res.assumptions = ["interpreter only", "the reference evaluator's value semantics are right", "limited relations all lie in one recursive stratum"]
    return res
