"""C02 Compiled programs agree with the interpreter."""
import os, random
from vlib import runner
from vlib.core import Result
from . import progcommon as pc, diffcommon as dc, compiled, c01
from gen import dl, progen, refeval

RULE = ("case = one generated C01-fragment program (index-heavy shapes favoured: joins with inequalities on every numeric type, "
        "eqrel / brie / btree qualifiers, aggregates, records in keys) evaluated three ways: by the real interpreter, by the "
        "executable that `souffle -o` produces (single-file C++, compiled with the tree's own compiler wrapper) and - for every "
        "third case - by `souffle -C` (multi-file C++); oracle = all output relations of the executables equal the interpreter's "
        "and the Python reference model's as sets, no duplicates, no compile error, no abort. non-trivial = distinct program "
        "with derived tuples whose executable was built and run.")


def cfg_fn(rng):
    cfg = c01.cfg_fn(rng)
    cfg["p_eqrel"] = 0.3
    cfg["p_constraint"] = 0.8
    return cfg


QUALS = ["btree", "brie", ""]


def worker(arg):
    seed, souffle = arg
    rng = random.Random(seed)
    prog = progen.generate(seed, cfg_fn(rng))
    for r in prog.rels:
        if "eqrel" not in r.quals and r.attrs and rng.random() < 0.4:
            r.quals = list(r.quals) + [rng.choice(["btree", "brie"])]
    text = dl.fmt_program(prog)
    rec = dict(seed=seed, hash=runner.prog_hash(text), features=sorted(prog.features), counts={})
    try:
        db, ev = pc.reference(prog)
    except refeval.Undefined:
        rec.update(status="skip", reason="left-defined-domain")
        return rec
    except refeval.RefError as e:
        rec.update(status="error", detail="reference evaluator: %s\n%s" % (e, text))
        return rec
    d = runner.case_dir("C02", seed)
    rec["dir"] = d
    runner.write_case(d, prog, text=text)
    base = runner.run_souffle(souffle, d, outdir="interp", timeout=180)
    if runner.crash_key(base) is not None or base.rc != 0:
        rec.update(status="skip", reason="interpreter-" + (runner.crash_key(base) or "rejected").split(":")[0])
        return rec
    iouts, problems = runner.read_outputs(d, prog, outdir="interp")
    if problems:
        rec.update(status="skip", reason="interpreter-output-unreadable")
        return rec
    viols = []
    tags = dc.shape_tags(prog)
    T = ("|" + ",".join(tags)) if tags else ""
    modeldiff = runner.diff_outputs(prog, iouts, db, ("interpreter", "model"))
    jobs = rng.choice([None, None, 4])
    r, ck = compiled.build_exe(souffle, d, jobs=jobs)
    rec["counts"]["compiles"] = 1
    if ck is not None:
        viols.append(("compile:crash:" + ck + T, "souffle -o died (%s)\n%s\n%s" % (ck, r.err[-2500:], text)))
    elif r.rc != 0:
        first = [l for l in r.err.split("\n") if "error" in l.lower()][:3]
        viols.append(("compile:error" + T, "souffle -o failed (exit %s): generated C++ does not compile?\n%s\n%s" % (r.rc, "\n".join(first)[:1500] or r.err[-1500:], text)))
    else:
        rr, ck = compiled.run_exe(d, jobs=jobs)
        if ck is not None:
            viols.append(("exe:crash:" + ck + T, "the compiled program died (%s)\n%s\n%s" % (ck, rr.err[-2500:], text)))
        elif rr.rc != 0:
            viols.append(("exe:error-exit" + T, "the compiled program exited with %s\n%s\n%s" % (rr.rc, rr.err[-1500:], text)))
        else:
            couts, problems = runner.read_outputs(d, prog, outdir="cout")
            for p in problems:
                viols.append(("exe:output:" + p.split(" ")[0] + T, p + "\n" + text))
            diffs = runner.diff_outputs(prog, couts, iouts, ("compiled", "interpreter"))
            if diffs:
                viols.append(("exe:differs-from-interpreter" + T, "compiled outputs differ from the interpreter's:\n  %s\n%s" % ("\n  ".join(diffs), text)))
            if not modeldiff:
                d2 = runner.diff_outputs(prog, couts, db, ("compiled", "model"))
                if d2 and not diffs:
                    viols.append(("exe:differs-from-model" + T, "compiled outputs differ from the least model:\n  %s\n%s" % ("\n  ".join(d2), text)))
            rec["counts"]["executables_run"] = 1
            rec["nontrivial"] = pc.nontrivial_c01(prog, db)
    if seed % 3 == 0 and not viols:
        r, ck = compiled.compile_many_and_run(souffle, d)
        rec["counts"]["multi_file_builds"] = 1
        if ck is not None:
            viols.append(("compile-many:crash:" + ck + T, "souffle -C died (%s)\n%s\n%s" % (ck, r.err[-2500:], text)))
        elif r.rc != 0:
            viols.append(("compile-many:error" + T, "souffle -C failed (exit %s)\n%s\n%s" % (r.rc, r.err[-1500:], text)))
        else:
            mouts, problems = runner.read_outputs(d, prog, outdir="cmany")
            for p in problems:
                viols.append(("compile-many:output:" + p.split(" ")[0] + T, p + "\n" + text))
            diffs = runner.diff_outputs(prog, mouts, iouts, ("multi-file", "interpreter"))
            if diffs:
                viols.append(("compile-many:differs-from-interpreter" + T, "multi-file outputs differ from the interpreter's:\n  %s\n%s" % ("\n  ".join(diffs), text)))
    if viols:
        rec.update(status="viol", viols=viols[:3], program=text)
    else:
        rec.update(status="ok", sample=pc.sample_of(prog, text) if seed % 16 == 0 else None)
    return rec


def check(tier, seed):
    t = pc.trees("plain")
    n = 32 if tier == "quick" else 128
    res = Result("exploration")
    res.rule = RULE
    base = seed * 1000000 + (0 if tier == "quick" else 50000) + 20000
    recs = runner.pmap(worker, [(base + i, t["plain"]) for i in range(n)], nproc=16)
    pc.collect("C02", recs, res)
    res.min_nontrivial = n // 4
    res.assumptions = ["compile-bound: two orders of magnitude fewer cases than C01", "generated code is compiled with the checked tree's own souffle-compile.py (clang, -O1, assertions on)",
                       "the reference evaluator's value semantics are right"]
    return res
