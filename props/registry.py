"""Registry of claimed properties -> MANIFEST.json entries (tools/mkmanifest.py)."""

CLAIMED = {
    "C03": dict(
        category="exploration",
        technique="differential monitor over generated programs: -j1 vs -j2..16 with injected schedule perturbation (guarded hook), output sets compared; ASan+UBSan subset",
        text=("Generated C01-fragment programs (no choice-domain / auto-increment, scaled-up inputs) run by the real interpreter at -j1 and "
              "at 3 of {2,3,4,8,16} threads with random yields/spins injected at lock, lease and parallel-loop points; every output "
              "relation must equal the -j1 output as a set, no duplicates, no abort or sanitizer report. Evidence counts the runs in "
              "which >= 2 worker threads passed perturbation points. Held on the programs and schedules explored (hundreds quick, "
              "thousands thorough); interpreter only."),
        note="trusts: OS scheduler + injected perturbation reach the relevant interleavings; compiled executables not covered; whole-program TSan not used (uninstrumented libomp barriers make its reports undecidable here)",
        design="6 C03",
    ),
    "C04": dict(
        category="exploration",
        technique="differential monitor over generated programs: default pipeline vs --disable-transformers=<pass / subsets / all> and random inline/no_inline qualifiers",
        text=("Generated programs run by the real interpreter with the default AST pipeline and with each of the 9 switchable passes the "
              "property names disabled singly, in random subsets and all together, and with random inline/no_inline qualifiers on "
              "non-I/O relations (sets rejected by the semantic checker are skipped); output relations must be identical, no abort. "
              "Non-trivial cases are those whose transformed AST really differs. Known findings (inliner aborts) are listed in known_findings.json."),
        note="trusts: generator distribution; interpreter only; InlineRelationsTransformer itself is not switched off",
        design="6 C04",
    ),
    "C05": dict(
        category="exploration",
        technique="differential monitor over generated programs: untransformed vs --magic-transform=* / subsets / exclude / magic,no_magic qualifiers",
        text=("Generated programs (negation, aggregates, records, ADTs, recursion, eqrel) run by the real interpreter untransformed and under "
              "four magic-set selections; output relations must be identical, no abort. Non-trivial cases are those whose transformed AST "
              "contains @magic relations. One defect repaired (fix: eqrel + magic qualifier), three abort classes recorded as known findings."),
        note="trusts: generator distribution; interpreter only",
        design="6 C05",
    ),
    "C06": dict(
        category="exploration",
        technique="differential monitor over generated programs: full RAM pipeline vs one / several RAM transformers skipped through the guarded SOUFFLE_VERIF_SKIP_RAM hook",
        text=("Generated programs run by the real interpreter (-j4) with the full RAM transformer sequence and with each of 12 skippable RAM "
              "passes skipped singly plus two random subsets; output relations must be identical, no abort. Non-trivial cases are those "
              "whose transformed RAM really differs. Two abort classes (HoistConditions skipped + ADT pattern, TupleId skipped + aggregate) "
              "are recorded as known findings."),
        note="trusts: generator distribution; interpreter only (compiled code not covered)",
        design="6 C06",
    ),
    "C29": dict(
        category="exploration",
        technique="cooperative serial scheduler (pre-emption at every load/store) + step invariants + linearizability checker over recorded histories; TSan/ASan free-mode stress",
        text=("Random-walk schedules of the REAL DisjointSet with a scheduling point at every load/store/edge; step-level "
              "monitors (no non-trivial parent cycle, no over-merge), quiescent partition check, interval-sound sameSet/find "
              "checks and an exact linearizability search for short histories; plus free-running threads under "
              "ThreadSanitizer and ASan+UBSan. Held on the schedules explored (tens of thousands quick, millions thorough); "
              "not an enumeration of all interleavings."),
        note="trusts: the scheduler runtime, x86-TSO (weak-memory effects only via TSan), random rather than exhaustive schedules",
        design="6 C29",
    ),
    "C30": dict(
        category="exploration",
        technique="cooperative serial scheduler + shadow-state monitors with non-pre-emptible snapshots; TSan (plain payload) / ASan free-mode stress",
        text=("Random-walk schedules of the REAL OptimisticReadWriteLock with a scheduling point at every load/store/edge. "
              "Monitors: writer exclusivity, validate() soundness against an exact snapshot of payload + commit state, "
              "abort restores the readers' version, upgrade only on a fresh lease, bounded progress (step budget). "
              "Held on the schedules explored; the contended paths (failed validations/upgrades/try-writes) are counted in evidence."),
        note="trusts: the scheduler runtime; liveness only as bounded progress; x86-TSO",
        design="6 C30",
    ),
}

PENDING = {
    "C01": dict(
        category="exploration",
        technique="reference-model monitor: real interpreter vs an independent naive stratified evaluator (Python) over generated programs; ASan+UBSan subset",
        text=("Generated programs (typed, stratified, terminating by construction; negation, constraints, functors, records, ADTs, disjunction, "
              "multiple heads, range, all five aggregates incl. empty sets, linear/non-linear/mutual recursion, eqrel) are run by the real "
              "interpreter and every output relation is compared as a set, and checked for duplicates, against a naive stratified "
              "evaluation by an independent Python model. Held on the programs explored (~1.7k quick, ~12.6k thorough). One recorded finding "
              "(aggregate made recursive by MaterializeAggregationQueries), one repaired defect."),
        note="trusts: the model's value semantics (written from the documentation); generator distribution; cases that produce NaN/-0.0 or leave the defined domain are discarded",
        design="6 C01",
    ),
    "C07": dict(
        category="exploration",
        technique="differential monitor over generated programs: default join order vs user .plan permutations, 9 RamSIPS heuristics, --auto-schedule from the program's own profile",
        text=("Generated recursive programs run by the real interpreter with the default order and with random .plan permutations for one / "
              "every delta version of up to three recursive clauses, four of the nine RamSIPS heuristics, and --auto-schedule fed by the "
              "profile of the same program (-j1 and -j4); outputs must be identical, no abort, valid plans accepted. Non-trivial = "
              "transformed RAM really differs. One defect repaired (join-size statistics keyed by address), two recorded findings."),
        note="trusts: generator distribution; interpreter only; random rather than all permutations",
        design="6 C07",
    ),
    "C08": dict(
        category="exploration",
        technique="differential monitor (btree/brie/default re-qualification) + reference-model monitor for eqrel (Python union-find closure) over probe programs with extreme 32-bit values",
        text=("(a) generated programs with every relation re-qualified btree/brie/default at random: outputs identical. (b) eqrel probe "
              "programs over small/sparse/extreme number, unsigned and symbol values read by scan, filter, joins binding either or both "
              "columns, constants in either column, negation and a recursive rule: every derived relation equals what the reflexive-"
              "symmetric-transitive closure gives. One defect repaired (interpreter lookups bound to MIN_RAM_SIGNED)."),
        note="trusts: generator/probe distribution; interpreter only (compiled code not covered by this check)",
        design="6 C08",
    ),
    "C10": dict(
        category="exploration",
        technique="contract monitor over template programs with choice-domain (functional / well-founded sound / maximal / downstream consistency) at -j1..16 with injected schedule perturbation",
        text=("Seven program shapes (one key, two keys, composite key, join candidates, recursive spanning tree, matching, chain) with random "
              "facts run by the real interpreter at -j1 and three of {2,3,4,8,16} threads with perturbation; the final choice relation "
              "must be functional on every declared key, equal the least fixpoint of its rules restricted to itself, leave no derivable "
              "non-clashing tuple out, and downstream relations must agree with it."),
        note="trusts: template coverage; interpreter only; OS + injected perturbation, not all interleavings",
        design="6 C10",
    ),
    "C11": dict(
        category="exploration",
        technique="reference-model monitor over template programs with subsumptive clauses (Python computes the unsubsumed result U and its non-dominated tuples) at -j1/4/8",
        text=("Bounded shortest paths (single-source, all-pairs), two-cost Pareto fronts, interval containment and per-key maxima with random "
              "facts, btree_delete or default storage: no final tuple is dominated by another, final is a subset of U, equals the "
              "non-dominated tuples of U, and is the same at -j1/-j4/-j8."),
        note="trusts: template coverage; interpreter only",
        design="6 C11",
    ),
    "C13": dict(
        category="exploration",
        technique="acceptance monitor: generated valid programs must be accepted; mutants with one injected defect (10 kinds) must exit 1 with an Error and write no output",
        text=("Every generated program (valid by construction) must be accepted; one or two mutants per program with exactly one injected "
              "defect (negation / aggregation cycle through 1-5 relations, ungrounded variable in head / negation / constraint / functor, "
              "four kinds of type clash) must end with exit status 1, an Error diagnostic, no abort and no output file. One defect "
              "repaired (valid program rejected: injected variable bound by a record pattern), one recorded finding."),
        note="trusts: defects are ill-formed by construction; generator distribution",
        design="6 C13",
    ),
    "C14": dict(
        category="exploration",
        technique="mutation fuzzing of program text (grammar-aware token edits + byte noise over the test corpus and generated programs) through the front end and synthesiser; assertions, signals, sanitizer reports and hangs are witnesses",
        text=("Thousands of mutated programs per run go through `--show=transformed-ram` (whole front end, no evaluation) and a third through "
              "`-g`; anything but exit 0/1 (signal, assertion, uncaught exception, ASan/UBSan report, exceeding 60 s and then 360 s) is a "
              "violation. Evidence counts the mutants that got past the parser. Crash signatures of the pinned tree are recorded findings."),
        note="'all byte strings' is sampled; hang = bounded-time restatement; a new crash signature on a fresh seed is a VIOLATION by design",
        design="6 C14",
    ),
    "C15": dict(
        category="exploration",
        technique="round-trip monitor: print (--show=initial-ast) -> reparse -> print fixpoint -> run both and compare outputs, over generated programs and a syntax-zoo generator",
        text=("For generated programs decorated with qualifiers and for template programs covering operators, escapes, casts, records, ADTs, "
              "aggregates, plans, limitsize, inline, choice-domain, subsumption, eqrel, functor declarations, components with overrides, "
              "I/O parameters and numeric literal forms: the printed program parses, printing it again gives the same text, and it "
              "computes the same outputs. Three printer defects repaired."),
        note="trusts: the surface syntax covered is what the two generators emit",
        design="6 C15",
    ),
    "C19": dict(
        category="exploration",
        technique="differential monitor (-t explain vs none) + offline proof checker over the JSON proof trees of `explain`, against the program AST and the reference model",
        text=("Programs of the provenance fragment run without provenance and with -t explain (default pipeline and with the AST "
              "optimisations off): same outputs; up to 40 proofs per program are checked node by node (tuple in the model, children follow "
              "the cited rule as souffle prints it, negated children absent, ground constraints true, leaves are facts; with optimisations "
              "off also: the children instantiate a source rule of the relation under one substitution that satisfies negations and "
              "constraints and yields the node's tuple); no tuple may be its own premise on a branch that never reaches facts (40% of the "
              "programs carry mutually recursive relations over cyclic data); non-members must answer 'Tuple not found'. A few programs "
              "per run go through generated code (souffle -t explain -o) with the same checker. Two defects repaired."),
        note="trusts: the reference model; mostly the interpreter (6 / 64 compiled programs per run); eqrel nodes: membership only; nodes of synthetic relations are counted as not interpretable",
        design="6 C19",
    ),
    "C20": dict(
        category="exploration",
        technique="differential monitor (-p vs none, with --profile-frequency, -j1..8) + size oracle: souffleprof's TUPLES cell vs the tuples counted in the output file",
        text=("Generated programs with every relation output: profiling must not change any output; for every non-eqrel relation the "
              "profile lists, the tuple count souffleprof reports equals the number of tuples the relation holds (cells >= 1000 are "
              "abbreviated and skipped)."),
        note="trusts: generator distribution; interpreter only",
        design="6 C20",
    ),
    "C22": dict(
        category="exploration",
        technique="uniqueness monitor over all values autoinc() wrote, plus derivation-count conservation, at -j1..16 with injected schedule perturbation",
        text=("Template programs deriving 10^2-10^4 tuples with autoinc() in scans and joins, several rules sharing the counter: no value "
              "occurs twice across all designated columns and every relation holds exactly one tuple per derivation, at -j1 and three of "
              "{2,3,4,8,16} threads."),
        note="trusts: OS + injected perturbation; interpreter only",
        design="6 C22",
    ),
    "C23": dict(
        category="exploration",
        technique="reference-model monitor: limited run vs the unlimited least model (Python): subset, equality below the limit, at least n tuples otherwise",
        text=("Generated recursive programs plus a long-chain closure component with .limitsize on one or two relations of one stratum, limits "
              "from 0 to beyond the unlimited size: limited stratum is a subset of the unlimited model, everything equals it when no "
              "limit is reached, a reached limit leaves >= n tuples, unrelated relations are unchanged."),
        note="trusts: the reference model; interpreter only",
        design="6 C23",
    ),
}

NOT_APPLICABLE = {}
HOOK_COMMITS = ["9c71e4cac", "57088799e"]

PENDING.update({
    "C02": dict(
        category="exploration",
        technique="differential + reference-model monitor: compiled executable (single-file `-o`, multi-file `-C`) vs interpreter vs Python model over generated programs with random btree/brie/eqrel representations",
        text=("Generated programs with random brie / btree / eqrel qualifiers are evaluated by the interpreter, by the executable souffle -o "
              "builds (generated C++ compiled with the tree's own compiler wrapper, sometimes -j4) and, for a third, by souffle -C "
              "(multi-file); all output relations must agree with each other and with the reference model. Since the interpreter "
              "stores every non-eqrel relation in a B-tree, this is where brie is really exercised at program level."),
        note="compile-bound: tens of programs per quick run, 128 thorough; trusts the reference model",
        design="6 C02",
    ),
    "C09": dict(
        category="exploration",
        technique="trace monitor: debug_delta twins report the iteration of every tuple, compared with a naive Jacobi fixpoint model; guarded hook counts head insertions per relation and iteration, compared with the model's count of body combinations containing a new tuple",
        text=("Recursive generated programs plus long-chain closures: (a) the (tuple, iteration) pairs souffle reports equal the naive rounds "
              "exactly with optimisations off, and in the default pipeline every naive tuple is found exactly once and not earlier "
              "than its naive round, the loop stopping at the naive fixpoint; (b) with AST optimisations and If/IfExists conversion "
              "off, the number of times the rule versions of R reach the head in iteration k equals N(S_k) - N(S_k - D_k): every "
              "combination with a new tuple is considered exactly once."),
        note="interpreter only, -j1; counts are per target relation and iteration (all versions of all rules together)",
        design="6 C09",
    ),
    "C16": dict(
        category="exploration",
        technique="differential monitor: generated flat program vs its componentised twin (type parameters, inheritance, overridable + decoy rules, nesting, second instances, shadowing), outputs compared under the instantiated names",
        text=("The derived relations of a generated program are distributed over 1-3 components with random type parameters, inheritance, "
              "overrides (base rules are decoys that would add tuples), nesting, second instantiations and shadowed globals; every "
              "P.r.csv of the componentised program must equal r.csv of the flat program."),
        note="the flat twin is run by souffle itself; interpreter only; features are those the wrapper generates",
        design="6 C16",
    ),
    "C17": dict(
        category="exploration",
        technique="round-trip monitor end-to-end through the binary: writer program -> file -> reader program that compares with the same facts and reports |r|, |missing|, |extra| as numbers; failing cases are minimised to one tuple / one column before the key is built",
        text=("Random signatures (number, unsigned, float, symbol, record, recursive list, ADT) x boundary values x tab / custom delimiter / "
              "RFC 4180 (with headers, gzip), JSON list/object, SQLite: what program B reads back must be exactly what program A wrote. "
              "Five defects repaired (RFC 4180 quotes, JSON float read and write, SQLite float read), two recorded (ADT columns in JSON "
              "and SQLite)."),
        note="values enter through fact constants in program text; nested symbols avoid the text formats' structural characters; no inf/NaN",
        design="6 C17",
    ),
    "C18": dict(
        category="exploration",
        technique="acceptance monitor with an exact classifier (big-integer / binary32 arithmetic): fields of fact files and numeric constants are VALID / INVALID / OPEN; exit status, error text (file + line) and the echoed stored value are checked; byte-mutated fact files must not crash",
        text=("Per column type, literals around every boundary (+-2^31, 2^32-1, 2^32, 2^64, FLT_MAX, 1e39), signs, prefixes, blanks, garbage, "
              "empty fields, missing columns, CRLF: VALID loads and stores the denoted value, INVALID exits 1 naming file and line, "
              "OPEN forms may go either way but must store what they denote; the same literals as program constants; random bytes "
              "never crash the loader. Four defects repaired."),
        note="the literal grammars and abstention classes are those of props/c18.py classify()",
        design="6 C18",
    ),
    "C21": dict(
        category="exploration",
        technique="API trace monitor: a generic C++ driver (generated code + __EMBEDDED_SOUFFLE__) executes a script of insert / run / iterate / size / contains / purge / loadAll calls and logs every return; the log is checked against the file-based run",
        text=("For generated programs over primitive columns: tuples inserted through the API and run() give the relations of the file-based "
              "run; size() equals the iterated count; contains() is true exactly for iterated tuples; after purge everything is empty; "
              "re-inserting (or loadAll) and running again reproduces the result."),
        note="compile-bound; primitive column types only",
        design="6 C21",
    ),
    "C24": dict(
        category="exploration",
        technique="table-driven reference monitor: every intrinsic operator x overload on boundary x boundary + random operands from fact files and as constants; interpreter vs Python reference; a compiled sample vs the same reference",
        text=("~110 operator/overload entries (arithmetic, bitwise, logical, shifts, comparisons, min/max, conversions, as(), string "
              "functors) evaluated on 40-120 argument tuples each per program, undefined argument tuples left out; every result must equal "
              "the reference (two's complement, mod 2^32, truncating division, masked shifts, binary32, byte strings)."),
        note="float ^, ord, float to_string and non-literal regular expressions are not compared; unsigned ^ beyond 2^32 is treated as outside the domain",
        design="6 C24",
    ),
    "C25": dict(
        category="exploration",
        technique="cooperative serial scheduler (pre-emption at every load/store/edge of BTree.h) + exactly-once / union / sorted-set-model checkers over recorded insert histories; free-running threads under TSan and ASan+UBSan",
        text=("2-4 threads insert random / sorted / reverse / duplicate-heavy / disjoint sequences with and without hints into real btree_sets "
              "with 3-key nodes (int and tuple keys, linear and binary search) and default nodes; afterwards exactly one success per key, "
              "ascending iteration = union, check(), size, contains, find, bounds and getChunks agree with std::set."),
        note="trusts: the scheduler runtime, x86-TSO; random rather than exhaustive schedules",
        design="6 C25",
    ),
    "C26": dict(
        category="exploration",
        technique="model-based monitor: random insert / erase(key) / erase(iterator) / query histories on the real btree_delete_set against std::set, step by step; parallel insert phases under the serial scheduler; ASan+UBSan flavour",
        text=("Up to 200 operations per history on 3-key nodes (merge / rebalance / root collapse constantly), small and 2^31 key ranges; every "
              "result, the iterator after erase(iterator), bounds, ascending iteration, size and check() agree with the model; phases "
              "insert(parallel) -> erase -> insert(parallel) keep the concurrent-insert guarantees."),
        note="erasure is sequential, hints are renewed after every erase (as souffle does)",
        design="6 C26",
    ),
    "C27": dict(
        category="exploration",
        technique="cooperative serial scheduler (pre-emption at every load/store/edge of Brie.h) + exactly-once / set-model checkers (iteration, contains, find, prefix ranges for every prefix length, partition); free-running threads under TSan and ASan+UBSan",
        text=("2-4 threads insert tuples of arity 1-4 from a shared pool (dense, sparse, negative, extreme values) into a real Trie; afterwards "
              "one success per tuple, iteration = union exactly once, size, contains, find, getBoundaries<0..Dim>, partition agree with "
              "std::set. Two defects repaired (child index computed from a 32-bit truncation of the key: sequential corruption with "
              "negative values; 66-bit shift)."),
        note="Brie's CAS-locked root/first records are written with plain stores: TSan write/write reports inside tryUpdateRootInfo / tryUpdateFirstInfo are diagnostics",
        design="6 C27",
    ),
    "C28": dict(
        category="exploration",
        technique="model-based monitor: histories of insert / insertAll / extendAndInsert / clear with parallel insert phases (serial scheduler) on two real EquivalenceRelation objects against a union-find closure model",
        text=("contains, size = sum of squared class sizes, full / per-element / per-pair iteration, getBoundaries<1,2> and partition agree with "
              "the closure at random points (so stale caches show) and at the end; small, negative and extreme values."),
        note="queries at quiescent points only; sits on the repaired union-find (C29)",
        design="6 C28",
    ),
    "C31": dict(
        category="exploration",
        technique="cooperative serial scheduler on ConcurrentFlyweight with explicit lanes (lane mutexes interposed) + bijection checker over all returns of all threads; SymbolTableImpl / RecordTable inside OpenMP regions under TSan and ASan+UBSan",
        text=("Equal values always get one reference, different values different ones; fetch/decode/unpack right after the call and after growth "
              "return the value; inserted==true exactly once per value; reserved index / nil never returned; iteration lists each value "
              "once - with initial capacity 1-8 so that the table grows constantly."),
        note="symbol and record tables take their lane from the OpenMP thread number: free-running only",
        design="6 C31",
    ),
})
CLAIMED.update(PENDING)
HOOK_COMMITS = ["9c71e4cac", "57088799e"]

CLAIMED["C12"] = dict(
    category="exploration",
    technique="reference-model monitor over template programs with lattice declarations (user-defined monotone functors built by setup): one tuple per key, lattice value = Python least fixpoint joined per key; -j1 and -j4",
    text=("Seven shapes (per-key max, two-key min, bit-set union, two lattice columns, bounded shortest distance with join = min, "
          "reachable-set propagation, a rule that swaps two lattice columns) with random facts: the final relation holds at most one "
          "tuple per assignment of the non-lattice attributes and its lattice value is the join of all values derivable for that key."),
    note="interpreter only (functors through libffi); template programs; functors monotone and of finite height by construction",
    design="6 C12",
)
