"""Registry of claimed properties -> MANIFEST.json entries (tools/mkmanifest.py)."""

CLAIMED = {
    "C29": dict(
        category="exploration",
        technique="cooperative serial scheduler (pre-emption at every load/store) + step invariants + linearizability checker over recorded histories; TSan/ASan free-mode stress",
        text=("Random-walk schedules of the REAL DisjointSet with a scheduling point at every load/store/edge; step-level "
              "monitors (no non-trivial parent cycle, no over-merge), quiescent partition check, interval-sound sameSet/find "
              "checks and an exact linearizability search for short histories; plus free-running threads under "
              "ThreadSanitizer and ASan+UBSan. Held on the schedules explored (tens of thousands quick, millions thorough); "
              "not an enumeration of all interleavings."),
        note="trusts: the scheduler runtime, x86-TSO (weak-memory effects only via TSan), random rather than exhaustive schedules",
        design="6 C29",
    ),
    "C30": dict(
        category="exploration",
        technique="cooperative serial scheduler + shadow-state monitors with non-pre-emptible snapshots; TSan (plain payload) / ASan free-mode stress",
        text=("Random-walk schedules of the REAL OptimisticReadWriteLock with a scheduling point at every load/store/edge. "
              "Monitors: writer exclusivity, validate() soundness against an exact snapshot of payload + commit state, "
              "abort restores the readers' version, upgrade only on a fresh lease, bounded progress (step budget). "
              "Held on the schedules explored; the contended paths (failed validations/upgrades/try-writes) are counted in evidence."),
        note="trusts: the scheduler runtime; liveness only as bounded progress; x86-TSO",
        design="6 C30",
    ),
}

NOT_APPLICABLE = {}
HOOK_COMMITS = ["9c71e4cac"]
