"""Registry of claimed properties -> MANIFEST.json entries (tools/mkmanifest.py)."""

CLAIMED = {
    "C03": dict(
        category="exploration",
        technique="differential monitor over generated programs: -j1 vs -j2..16 with injected schedule perturbation (guarded hook), output sets compared; ASan+UBSan subset",
        text=("Generated C01-fragment programs (no choice-domain / auto-increment, scaled-up inputs) run by the real interpreter at -j1 and "
              "at 3 of {2,3,4,8,16} threads with random yields/spins injected at lock, lease and parallel-loop points; every output "
              "relation must equal the -j1 output as a set, no duplicates, no abort or sanitizer report. Evidence counts the runs in "
              "which >= 2 worker threads passed perturbation points. Held on the programs and schedules explored (hundreds quick, "
              "tens of thousands thorough); interpreter only."),
        note="trusts: OS scheduler + injected perturbation reach the relevant interleavings; compiled executables not covered; whole-program TSan not used (uninstrumented libomp barriers make its reports undecidable here)",
        design="6 C03",
    ),
    "C04": dict(
        category="exploration",
        technique="differential monitor over generated programs: default pipeline vs --disable-transformers=<pass / subsets / all> and random inline/no_inline qualifiers",
        text=("Generated programs run by the real interpreter with the default AST pipeline and with each of the 9 switchable passes the "
              "property names disabled singly, in random subsets and all together, and with random inline/no_inline qualifiers on "
              "non-I/O relations (sets rejected by the semantic checker are skipped); output relations must be identical, no abort. "
              "Non-trivial cases are those whose transformed AST really differs. Known findings (inliner aborts) are listed in known_findings.json."),
        note="trusts: generator distribution; interpreter only; InlineRelationsTransformer itself is not switched off",
        design="6 C04",
    ),
    "C05": dict(
        category="exploration",
        technique="differential monitor over generated programs: untransformed vs --magic-transform=* / subsets / exclude / magic,no_magic qualifiers",
        text=("Generated programs (negation, aggregates, records, ADTs, recursion, eqrel) run by the real interpreter untransformed and under "
              "four magic-set selections; output relations must be identical, no abort. Non-trivial cases are those whose transformed AST "
              "contains @magic relations. One defect repaired (fix: eqrel + magic qualifier), three abort classes recorded as known findings."),
        note="trusts: generator distribution; interpreter only",
        design="6 C05",
    ),
    "C06": dict(
        category="exploration",
        technique="differential monitor over generated programs: full RAM pipeline vs one / several RAM transformers skipped through the guarded SOUFFLE_VERIF_SKIP_RAM hook",
        text=("Generated programs run by the real interpreter (-j4) with the full RAM transformer sequence and with each of 12 skippable RAM "
              "passes skipped singly plus two random subsets; output relations must be identical, no abort. Non-trivial cases are those "
              "whose transformed RAM really differs. Two abort classes (HoistConditions skipped + ADT pattern, TupleId skipped + aggregate) "
              "are recorded as known findings."),
        note="trusts: generator distribution; interpreter only (compiled code not covered)",
        design="6 C06",
    ),
    "C29": dict(
        category="exploration",
        technique="cooperative serial scheduler (pre-emption at every load/store) + step invariants + linearizability checker over recorded histories; TSan/ASan free-mode stress",
        text=("Random-walk schedules of the REAL DisjointSet with a scheduling point at every load/store/edge; step-level "
              "monitors (no non-trivial parent cycle, no over-merge), quiescent partition check, interval-sound sameSet/find "
              "checks and an exact linearizability search for short histories; plus free-running threads under "
              "ThreadSanitizer and ASan+UBSan. Held on the schedules explored (tens of thousands quick, millions thorough); "
              "not an enumeration of all interleavings."),
        note="trusts: the scheduler runtime, x86-TSO (weak-memory effects only via TSan), random rather than exhaustive schedules",
        design="6 C29",
    ),
    "C30": dict(
        category="exploration",
        technique="cooperative serial scheduler + shadow-state monitors with non-pre-emptible snapshots; TSan (plain payload) / ASan free-mode stress",
        text=("Random-walk schedules of the REAL OptimisticReadWriteLock with a scheduling point at every load/store/edge. "
              "Monitors: writer exclusivity, validate() soundness against an exact snapshot of payload + commit state, "
              "abort restores the readers' version, upgrade only on a fresh lease, bounded progress (step budget). "
              "Held on the schedules explored; the contended paths (failed validations/upgrades/try-writes) are counted in evidence."),
        note="trusts: the scheduler runtime; liveness only as bounded progress; x86-TSO",
        design="6 C30",
    ),
}

NOT_APPLICABLE = {}
HOOK_COMMITS = ["9c71e4cac"]
