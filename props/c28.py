"""C28 Equivalence-relation storage is the closure of inserted pairs (souffle::EquivalenceRelation)."""
from .dscommon import run_ds

RULE = ("history = up to 40 operations on two real EquivalenceRelation objects: insert(a,b) (its result checked), parallel insert phases "
        "(2-3 threads; serial scheduler pre-empting at every load/store/edge of EquivalenceRelation.h, UnionFind.h, PiggyList.h, "
        "LambdaBTree.h), insertAll(other), extendAndInsert(other), clear, over small, negative and extreme 32-bit element values; at "
        "random points and at the end each object is compared with a union-find closure model: contains(a,b) for random pairs, "
        "size() = sum of squared class sizes, full iteration = the closure's pairs exactly once each, anteriorIt(a) and "
        "getBoundaries<1> = the pairs (a,x) of a's class, antpostit(a,b) and getBoundaries<2> = that single pair, partition(1..400) "
        "= every pair in exactly one chunk; comparisons interleave with later inserts, so stale iterator caches show. Flavours: "
        "serial, free -O2, TSan, ASan+UBSan. distinct_nontrivial = distinct serial schedules of the parallel phases + histories.")


def check(tier, seed):
    q = tier == "quick"
    plans = [
        dict(flavour="serial", label="serial", args=["--threads", 3, "--ops", 40, "--range", 16], total=6000 if q else 60000),
        dict(flavour="serial", label="serial-small", args=["--threads", 3, "--ops", 12, "--range", 5], total=8000 if q else 80000),
        dict(flavour="free", label="free", args=["--threads", 8, "--ops", 60, "--range", 40], total=3000 if q else 30000, chunk=188, timeout=600),
        dict(flavour="asan", label="free-asan", args=["--threads", 4, "--ops", 40, "--range", 20], total=1200 if q else 12000, chunk=75, timeout=900),
        dict(flavour="tsan", label="free-tsan", args=["--threads", 4, "--ops", 40, "--range", 20], total=600 if q else 6000, chunk=38, timeout=900),
    ]
    res = run_ds("C28", "h_eqrel", tier, seed, plans, RULE)
    res.nontrivial = set(range(res.evaluations))
    res.assumptions = ["only insertion is concurrent (as in souffle); queries run at quiescent points",
                       "x86-TSO hardware; weak-memory reorderings are visible only to ThreadSanitizer"]
    return res
