"""C04 Optional AST optimisations and inlining preserve results."""
import os, random, re
from vlib import runner
from vlib.core import Result
from . import progcommon as pc, diffcommon as dc

PASSES = ["MinimiseProgramTransformer", "RemoveRelationCopiesTransformer", "RemoveEmptyRelationsTransformer",
          "RemoveRedundantRelationsTransformer", "ReduceExistentialsTransformer", "ReplaceSingletonVariablesTransformer",
          "PartitionBodyLiteralsTransformer", "SimplifyConstantBinaryConstraintsTransformer", "RemoveRedundantSumsTransformer"]

RULE = ("case = one generated C01-fragment program (sinks-only outputs in half of the cases so that intermediate relations can be "
        "minimised, copied away, reduced or inlined) run by the real interpreter with the default pipeline (baseline), with "
        "--disable-transformers=<one of the 9 switchable passes the property names>, with two random subsets and with all 9 "
        "disabled, and with random inline / no_inline qualifiers on non-output, non-input relations (a qualifier set the "
        "semantic checker rejects is skipped); oracle = every output CSV equal as a set to the baseline output, no abort. "
        "non-trivial = distinct program with derived tuples whose --show=transformed-ast differs from the baseline's for at "
        "least one variant. InlineRelationsTransformer itself is not switched off (the statement does not list it).")

SOUFFLE = [None]


def cfg_fn(rng):
    cfg = dc.base_cfg(rng)
    if rng.random() < 0.5:
        cfg["sinks_only"] = True
    if rng.random() < 0.4:
        cfg["p_unnamed"] = 0.4
    return cfg


def inline_text(text, qmap):
    out = []
    for l in text.split("\n"):
        m = re.match(r"^\.decl (\w+)\((.*)\)(.*)$", l)
        if m and m.group(1) in qmap:
            l = l + " " + qmap[m.group(1)]
        out.append(l)
    return "\n".join(out)


def variants(prog, text, rng, d):
    out = []
    for n in PASSES:
        out.append(dict(name="disable " + n, cls="disable=" + n, args=["--disable-transformers=" + n]))
    for i in range(2):
        sub = sorted(rng.sample(PASSES, rng.randint(2, 5)))
        out.append(dict(name="disable " + ",".join(sub),
                        cls="disable-subset" + ("+RemoveRedundantRelations" if "RemoveRedundantRelationsTransformer" in sub else ""),
                        args=["--disable-transformers=" + ",".join(sub)]))
    out.append(dict(name="disable all 9", cls="disable-subset+RemoveRedundantRelations", args=["--disable-transformers=" + ",".join(PASSES)]))
    cand = [r.name for r in prog.rels if not r.is_output and not r.is_input and "eqrel" not in r.quals]
    for i in range(2):
        qmap = {n: ("inline" if rng.random() < 0.7 else "no_inline") for n in cand if rng.random() < 0.5}
        if qmap:
            facts = any(q == "inline" and prog.rel(n).facts for n, q in qmap.items())
            out.append(dict(name="qualifiers " + " ".join("%s:%s" % kv for kv in sorted(qmap.items())), cls="inline",
                            tags=(("inlined-facts",) if facts else ()),
                            textfn=lambda t, qmap=qmap: inline_text(t, qmap), may_reject=True))
    return out


BASE_AST = {}


def probe(v, run, d, od):
    if d not in BASE_AST:
        BASE_AST.clear()
        r0 = runner.run_souffle(SOUFFLE[0], d, args=["--show=transformed-ast"], timeout=120, outdir="base")
        BASE_AST[d] = r0.out
    pname = "p.dl"
    if v.get("prog") is not None:
        with open(os.path.join(d, "pq.dl"), "w") as f:
            f.write(v["prog"])
        pname = "pq.dl"
    r = runner.run_souffle(SOUFFLE[0], d, args=list(v.get("args", ())) + ["--show=transformed-ast"], timeout=120, outdir="base", prog=pname)
    return r.out != BASE_AST[d]


def worker(arg):
    seed, souffle = arg
    SOUFFLE[0] = souffle
    return dc.run_case("C04", seed, souffle, variants, cfg_fn=cfg_fn, probe=probe)


def check(tier, seed):
    t = pc.trees("plain", "san")
    n = 200 if tier == "quick" else 1000
    nsan = 16 if tier == "quick" else 64
    res = Result("exploration")
    res.rule = RULE
    base = seed * 1000000 + (0 if tier == "quick" else 50000) + 400000
    recs = runner.pmap(worker, [(base + i, t["plain"]) for i in range(n)] + [(base + n + i, t["san"]) for i in range(nsan)])
    dc.finish("C04", recs, res, n)
    res.assumptions = ["interpreter only", "programs are samples of the generator's distribution"]
    return res
