"""Shared driver for the data-structure harness properties (C25-C31)."""
import os, shutil, time
from vlib import harness, santriage, build
from vlib.core import Result, Violation, Inconclusive, WORK


def run_ds(prop, name, tier, seed, plans, rule, defines=(), min_schedules=50, tsan_by_design=()):
    """plans: list of dict(flavour, args(list), total, nproc, timeout, label). Each plan runs the
    harness binary `name` in a flavour. Violations are keyed '<flavour-class>:<harness key>'."""
    res = Result("exploration")
    res.rule = rule
    flavours = sorted(set(p["flavour"] for p in plans))
    harness.ensure_many([(name, f, tuple(defines)) for f in flavours])
    per_plan = []
    total_sched = 0
    for i, p in enumerate(plans):
        exe = harness.binary(name, p["flavour"], tuple(defines))
        logdir = None
        if p["flavour"] == "tsan":
            logdir = os.path.join(WORK, "tsanlogs", "%s-%d-%d" % (prop, os.getpid(), i))
            shutil.rmtree(logdir, ignore_errors=True)
        args = ["--seed", str(seed * 1000003 + i)] + [str(x) for x in p["args"]]
        t0 = time.time()
        out = harness.run_parallel(exe, args, p["total"], nproc=p.get("nproc", 16), timeout=p.get("timeout", 900),
                                   chunk=p.get("chunk"), tsan_log_dir=logdir)
        dt = time.time() - t0
        label = p.get("label", "%s[%d]" % (p["flavour"], i))
        st = dict(out.stats)
        st["wall_s"] = round(dt, 1)
        st["cmd"] = os.path.basename(exe) + " " + " ".join(args)
        per_plan.append({label: st})
        h = int(out.stats.get("histories", 0))
        res.evaluations += h
        if p["flavour"] == "serial":
            total_sched += int(out.stats.get("distinct_schedules", 0))
        for key, hist, detail, cl in out.viols:
            k = "%s:%s" % ("serial" if p["flavour"] == "serial" else "free", key)
            res.violations.append(Violation(k, "[%s] %s\nreplay: %s --first %d --count 1 (plus the common args)" % (label, detail, cl, hist),
                                            dict(cmd=cl, hist=hist, flavour=p["flavour"], detail=detail)))
        for cl in out.hangs:
            # a watchdog expiry is re-run once with 4x the time before it is believed
            res.violations.append(Violation("free:hang", "[%s] process exceeded its watchdog: %s" % (label, cl), dict(cmd=cl)))
        for rc, tail, cl in out.crashes:
            key = santriage.asan_key(tail) or ("exit:%s" % rc)
            res.violations.append(Violation("%s:%s" % (p["flavour"], key), "[%s] harness process died (rc=%s)\n%s\ncmd: %s" % (label, rc, tail[-2500:], cl),
                                            dict(cmd=cl, rc=rc, tail=tail)))
        if logdir:
            viol, diag = santriage.triage_tsan_logs(out.tsan_logs)
            for k in list(viol):
                # write/write reports inside a region that the code protects with a lock ThreadSanitizer cannot see (DESIGN.md section 5)
                if any(k.endswith(":" + pair) for pair in tsan_by_design):
                    diag["by-design:" + k] = diag.get("by-design:" + k, 0) + 1
                    del viol[k]
            for k, text in viol.items():
                res.violations.append(Violation(k, "[%s] ThreadSanitizer class-2 report\n%s" % (label, text), dict(cmd=st["cmd"], report=text)))
            res.extra.setdefault("tsan_diagnostics", {})
            for k, c in diag.items():
                res.extra["tsan_diagnostics"][k] = res.extra["tsan_diagnostics"].get(k, 0) + c
            shutil.rmtree(logdir, ignore_errors=True)
    res.extra["plans"] = per_plan
    res.extra["distinct_serial_schedules"] = total_sched
    # non-trivial = a distinct serial schedule, or a free-mode history (each with its own seed)
    res.nontrivial = set(range(total_sched + sum(int(list(pp.values())[0].get("histories_with_overlap", 0)) for pp in per_plan if "serial" not in list(pp.keys())[0])))
    res.min_nontrivial = min_schedules
    return res
