"""C27 Brie tries behave as tuple sets under concurrent insertion (souffle::Trie<1..4>)."""
from .dscommon import run_ds

RULE = ("history = 2-4 client threads inserting tuples drawn from a shared pool (so that threads collide on tuples and prefixes) into one "
        "real Trie<Dim>, Dim 1-4, with and without op_context hints; values dense-small, sparse 32-bit (forcing raiseLevel and "
        "first-node updates), negative and extreme (-2^31, 2^31-1); serial flavour: cooperative scheduler pre-empting at every "
        "load/store/edge of Brie.h (inside the root-info lock-out windows and between cell CAS attempts); free flavours: real "
        "threads (-O2, TSan, ASan+UBSan). After quiescence: each distinct tuple reported success exactly once; iteration lists every "
        "tuple of the union exactly once; size, empty, contains, find, getBoundaries<0..Dim> for every prefix length and "
        "partition(1..500) (every tuple in exactly one chunk) agree with a std::set model. distinct_nontrivial = distinct serial "
        "schedules (hash of the decision sequence) + free-mode histories.")


def check(tier, seed):
    q = tier == "quick"
    plans = []
    for dim, n in ((1, 8000), (2, 8000), (3, 5000), (4, 3000)):
        plans.append(dict(flavour="serial", label="serial-dim%d" % dim, args=["--dim", dim, "--threads", 3, "--ops", 10, "--range", 40], total=n if q else n * 10))
    plans.append(dict(flavour="serial", label="serial-4threads", args=["--dim", 2, "--threads", 4, "--ops", 8, "--range", 12, "--budget", 8000000], total=3000 if q else 30000))
    plans.append(dict(flavour="free", label="free-dim2", args=["--dim", 2, "--threads", 8, "--ops", 3000, "--range", 300, "--fixed"], total=48 if q else 480, chunk=3, timeout=300))
    plans.append(dict(flavour="free", label="free-dim1", args=["--dim", 1, "--threads", 8, "--ops", 3000, "--range", 5000, "--fixed"], total=32 if q else 320, chunk=2, timeout=300))
    plans.append(dict(flavour="tsan", label="free-tsan", args=["--dim", 3, "--threads", 6, "--ops", 1200, "--range", 60, "--fixed"], total=12 if q else 120, chunk=1, timeout=900))
    plans.append(dict(flavour="asan", label="free-asan", args=["--dim", 2, "--threads", 6, "--ops", 1200, "--range", 200, "--fixed"], total=12 if q else 120, chunk=1, timeout=900))
    # Brie guards its root / first-node records with a CAS on the pointer itself (odd value = locked), writes the record with plain
    # stores and unlocks with a plain store after __sync_synchronize(): mutual exclusion holds, but ThreadSanitizer sees no
    # release/acquire pair and reports the two writers' plain stores as a race. Reported as a diagnostic, not a violation.
    by_design = ("souffle::SparseArray::tryUpdateRootInfo|souffle::SparseArray::tryUpdateRootInfo",
                 "souffle::SparseArray::tryUpdateFirstInfo|souffle::SparseArray::tryUpdateFirstInfo")
    res = run_ds("C27", "h_brie", tier, seed, plans, RULE, tsan_by_design=by_design)
    res.assumptions = ["x86-TSO hardware; weak-memory reorderings are visible only to ThreadSanitizer",
                       "random-walk schedules of the real code, not exhaustive enumeration of interleavings",
                       "lower_bound / upper_bound of the trie are not part of the property and are not checked"]
    return res
