"""C16 Component instantiation is equivalent to textual expansion."""
import copy, os, random, re
from vlib import runner
from vlib.core import Result
from . import progcommon as pc, diffcommon as dc
from gen import dl, progen

RULE = ("case = one generated flat C01-fragment program and its componentised twin: the derived relations are distributed over 1-3 "
        "component declarations (rules referring across components use the instantiated names), with - at random - a type "
        "parameter standing for `number` (`.comp C<T>` / `.init i = C<number>`), an inheritance chain (declarations and part "
        "of the rules in a base component), an `overridable` relation whose base rules (decoys that derive other tuples) are "
        "replaced through `.override` in the derived component, one component nested in another (instantiated inside it), "
        "a second instantiation of the same component, and a same-named relation declared both inside a component and "
        "globally (shadowing). Both programs are run by the real interpreter; oracle = for every derived relation r placed "
        "at instance path P, the output file P.r.csv of the componentised program equals r.csv of the flat program as a set "
        "(second instances too), input relations' outputs are unchanged, no abort / rejection. non-trivial = distinct "
        "program with derived tuples in at least one component relation.")


def cfg_fn(rng):
    cfg = dc.base_cfg(rng)
    cfg["p_eqrel"] = 0.0
    cfg["p_multihead"] = 0.0
    return cfg


def rename_clause(c, mapping):
    """deep copy of clause c with relation names mapped"""
    q = copy.deepcopy(c)

    def atom(a):
        a.rel = mapping.get(a.rel, a.rel)

    def term(t):
        if isinstance(t, dl.Aggr):
            for l in t.body:
                lit(l)

    def lit(l):
        if isinstance(l, dl.Atom):
            atom(l)
            for a in l.args:
                dl.walk_terms(a, term)
        elif isinstance(l, dl.Neg):
            atom(l.atom)
        elif isinstance(l, dl.Cmp):
            dl.walk_terms(l.lhs, term)
            dl.walk_terms(l.rhs, term)
        elif isinstance(l, dl.Disj):
            for alt in l.alts:
                for x in alt:
                    lit(x)
    for h in q.heads:
        atom(h)
        for a in h.args:
            dl.walk_terms(a, term)
    for l in q.body:
        lit(l)
    return q


def decl_text(r, tparam=False, overridable=False, output=True):
    d = ".decl %s(%s)" % (r.name, ", ".join("%s:%s" % (n, ("T" if (tparam and t is dl.NUMBER) else t.name)) for n, t in r.attrs))
    q = list(r.quals) + (["overridable"] if overridable else [])
    if q:
        d += " " + " ".join(q)
    out = [d]
    if output and r.is_output:
        out.append(".output %s" % r.name)
    return out


def componentise(prog, rng):
    """-> (text, mapping rel name -> list of instance paths, feature set)"""
    feats = set()
    idb = [r for r in prog.rels if r.name.startswith("r")]
    glob = [r for r in prog.rels if not r.name.startswith("r")]
    ncomp = rng.randint(1, min(3, max(1, len(idb))))
    comp_of = {}
    for r in idb:
        comp_of[r.name] = rng.randrange(ncomp)
    # every component gets at least one relation if possible
    for k in range(ncomp):
        if not any(v == k for v in comp_of.values()) and len(idb) > k:
            comp_of[idb[k].name] = k
    nested = ncomp >= 2 and rng.random() < 0.4          # component 1 is declared and instantiated inside component 0
    path = {}
    for k in range(ncomp):
        path[k] = "i%d" % k
    if nested:
        path[1] = "i0.n1"
        feats.add("nested-component")
    tparam = {k: rng.random() < 0.4 for k in range(ncomp)}
    if nested:
        tparam[1] = False
    inherit = {k: rng.random() < 0.5 for k in range(ncomp)}
    twice = {k: (rng.random() < 0.3 and not (nested and k in (0, 1))) for k in range(ncomp)}
    qual = lambda k, name: "%s.%s" % (path[k], name)
    # clauses by component (by head); clauses with heads outside components stay global
    by_comp = {k: [] for k in range(ncomp)}
    top = []
    for c in prog.clauses:
        hk = {comp_of.get(h.rel) for h in c.heads}
        if len(hk) == 1 and None not in hk:
            by_comp[hk.pop()].append(c)
        else:
            top.append(c)
    out = list(prog.extra_decls)
    for t in prog.types:
        d = t.decl()
        if d:
            out.append(d)
    # globals (input relations, eq) as in the flat program
    for r in glob:
        out += decl_text(r)
        if r.is_input:
            out.append(".input %s" % r.name)
        if not r.is_input:
            for f in r.facts:
                out.append("%s(%s)." % (r.name, ", ".join(dl.fmt_const(v, t) for v, (n, t) in zip(f, r.attrs))))
    shadow = None
    comp_text = {}
    overridden = {}
    for k in range(ncomp):
        rels = [r for r in idb if comp_of[r.name] == k]
        mapping = {}
        for r in idb:
            if comp_of[r.name] != k:
                # reference from inside component k to a relation of another component
                if nested and k == 0 and comp_of[r.name] == 1:
                    mapping[r.name] = "n1." + r.name
                else:
                    mapping[r.name] = qual(comp_of[r.name], r.name)
        clauses = [rename_clause(c, mapping) for c in by_comp[k]]
        tp = "<T>" if tparam[k] else ""
        body_base, body_der = [], []
        ov = None
        if inherit[k] and rels:
            feats.add("inheritance")
            cand = [r for r in rels if any(c.heads[0].rel == r.name for c in clauses)]
            if cand and rng.random() < 0.7:
                ov = rng.choice(cand)
                overridden[k] = ov.name
                feats.add("override")
        for r in rels:
            body_base += decl_text(r, tparam=tparam[k], overridable=(ov is not None and r.name == ov.name))
        if inherit[k]:
            for c in clauses:
                if ov is not None and any(h.rel == ov.name for h in c.heads):
                    body_der.append(dl.fmt_clause(c))
                elif rng.random() < 0.5:
                    body_base.append(dl.fmt_clause(c))
                else:
                    body_der.append(dl.fmt_clause(c))
            if ov is not None:
                # decoy rules in the base: they must vanish when the relation is overridden
                srcs = [g for g in glob if g.attrs and g.name != "eq"]
                for _ in range(rng.randint(1, 2)):
                    args = []
                    ok = True
                    for (_, t) in ov.attrs:
                        if t is dl.NUMBER:
                            args.append(str(rng.randint(900, 999)))
                        elif t is dl.SYMBOL:
                            args.append('"decoy%d"' % rng.randint(0, 9))
                        else:
                            ok = False
                    if ok:
                        body_base.append("%s(%s)." % (ov.name, ", ".join(args)))
                    elif clauses:
                        # a copy of one of its own rules is a harmless decoy only if it derives nothing new; skip
                        pass
                body_der.insert(0, ".override %s" % ov.name)
        else:
            body_base += [dl.fmt_clause(c) for c in clauses]
        comp_text[k] = (tp, body_base, body_der)
    # emit components; component 1 nested in component 0 if requested
    def emit(k, indent=""):
        tp, base, der = comp_text[k]
        lines = []
        inner = []
        if nested and k == 0:
            inner = emit(1, indent + "  ") + [indent + "  .init n1 = C1"]
        if inherit[k]:
            lines.append("%s.comp B%d%s {" % (indent, k, tp))
            lines += [indent + "  " + l.replace("\n", "\n" + indent + "  ") for l in base]
            lines += inner
            lines.append(indent + "}")
            lines.append("%s.comp C%d%s : B%d%s {" % (indent, k, tp, k, tp))
            lines += [indent + "  " + l.replace("\n", "\n" + indent + "  ") for l in der]
            lines.append(indent + "}")
        else:
            lines.append("%s.comp C%d%s {" % (indent, k, tp))
            lines += [indent + "  " + l.replace("\n", "\n" + indent + "  ") for l in base]
            lines += inner
            lines.append(indent + "}")
        return lines
    for k in range(ncomp):
        if nested and k == 1:
            continue
        out += emit(k)
    paths = {}
    for k in range(ncomp):
        if nested and k == 1:
            pass
        else:
            out.append(".init i%d = C%d%s" % (k, k, "<number>" if tparam[k] else ""))
        if tparam[k]:
            feats.add("type-parameter")
    for r in idb:
        paths[r.name] = [path[comp_of[r.name]]]
    for k in range(ncomp):
        if twice[k]:
            # a second instance: its relations refer to the first instances of the other components, so they hold the same tuples
            # unless the component is recursive through another component; only components without cross references back to k qualify
            refs_back = any(comp_of.get(rn) == k for j in range(ncomp) if j != k for c in by_comp[j] for rn, _ in dl.clause_atoms(c))
            if not refs_back:
                out.append(".init j%d = C%d%s" % (k, k, "<number>" if tparam[k] else ""))
                for r in idb:
                    if comp_of[r.name] == k:
                        paths[r.name].append("j%d" % k)
                feats.add("second-instance")
    # shadowing: a global relation with the same name as a component relation, unrelated contents
    if idb and rng.random() < 0.3:
        r = rng.choice(idb)
        if all(t in (dl.NUMBER, dl.SYMBOL) for _, t in r.attrs) and r.attrs:
            out += [".decl %s(%s)" % (r.name, ", ".join("%s:%s" % (n, t.name) for n, t in r.attrs))]
            out.append("%s(%s)." % (r.name, ", ".join("777" if t is dl.NUMBER else '"shadow"' for _, t in r.attrs)))
            feats.add("shadowed-global")
            shadow = r.name
    # global clauses (heads outside components or spanning components)
    gm = {r.name: qual(comp_of[r.name], r.name) for r in idb}
    for c in top:
        out.append(dl.fmt_clause(rename_clause(c, gm)))
    return "\n".join(out) + "\n", paths, feats


def worker(arg):
    seed, souffle = arg
    rng = random.Random(seed)
    prog = progen.generate(seed, cfg_fn(rng))
    text = dl.fmt_program(prog)
    rec = dict(seed=seed, hash=runner.prog_hash(text), features=sorted(prog.features), counts={})
    d = runner.case_dir("C16", seed)
    rec["dir"] = d
    runner.write_case(d, prog, text=text)
    base = runner.run_souffle(souffle, d, outdir="flat", timeout=120)
    if runner.crash_key(base) is not None or base.rc != 0:
        rec.update(status="skip", reason="baseline-" + (runner.crash_key(base) or "rejected").split(":")[0])
        return rec
    flat, problems = runner.read_outputs(d, prog, outdir="flat")
    if problems:
        rec.update(status="skip", reason="baseline-output-unreadable")
        return rec
    ctext, paths, feats = componentise(prog, rng)
    rec["features"] = sorted(set(rec["features"]) | feats)
    with open(os.path.join(d, "c.dl"), "w") as f:
        f.write(ctext)
    r = runner.run_souffle(souffle, d, prog="c.dl", outdir="comp", timeout=120)
    ck = runner.crash_key(r)
    viols = []
    tags = ",".join(sorted(feats))
    if ck is not None:
        viols.append(("crash:" + ck + "|" + tags, "souffle died on the componentised program (%s)\n%s\n%s" % (ck, r.err[-2000:], ctext)))
    elif r.rc != 0:
        errs = [re.sub(r" in file .*", "", l) for l in r.err.split("\n") if l.startswith("Error")]
        first = re.sub(r"\d+", "N", errs[0])[:70] if errs else "?"
        viols.append(("rejected:%s|%s" % (first, tags), "the componentised program is rejected:\n%s\n%s" % ("\n".join(errs[:4]), ctext)))
    else:
        ncmp = 0
        for rel in prog.rels:
            if not rel.is_output:
                continue
            for pth in paths.get(rel.name, [None]):
                fn = (pth + "." if pth else "") + rel.name + ".csv"
                try:
                    with open(os.path.join(d, "comp", fn), errors="surrogateescape") as f:
                        rows = dl.parse_output(f.read(), rel.attrs)
                except OSError:
                    viols.append(("missing-output|" + tags, "no output file %s\n%s" % (fn, ctext)))
                    continue
                except dl.ParseError as e:
                    viols.append(("unparsable-output|" + tags, "%s: %s\n%s" % (fn, e, ctext)))
                    continue
                ncmp += 1
                got, want = set(rows), flat[rel.name]
                if got != want:
                    viols.append(("wrong-result|" + tags, "%s differs from the flat program's %s: only componentised %s, only flat %s\n%s\n--- flat ---\n%s" % (
                        fn, rel.name, sorted(got - want, key=repr)[:4], sorted(want - got, key=repr)[:4], ctext, text)))
        rec["counts"]["relations_compared"] = ncmp
        rec["nontrivial"] = any(flat[r.name] for r in prog.rels if r.name in paths and r.is_output)
    if viols:
        seen, uniq = set(), []
        for k, dtl in viols:
            if k not in seen:
                seen.add(k)
                uniq.append((k, dtl))
        rec.update(status="viol", viols=uniq[:4], program=ctext)
    else:
        rec.update(status="ok", sample=({"program": ctext[:2500]} if seed % 50 == 0 else None))
    return rec


def check(tier, seed):
    t = pc.trees("plain", "san")
    n = 300 if tier == "quick" else 1500
    nsan = 12 if tier == "quick" else 60
    res = Result("exploration")
    res.rule = RULE
    base = seed * 1000000 + (0 if tier == "quick" else 50000) + 160000
    recs = runner.pmap(worker, [(base + i, t["plain"]) for i in range(n)] + [(base + n + i, t["san"]) for i in range(nsan)])
    pc.collect("C16", recs, res)
    res.min_nontrivial = n // 4
    res.assumptions = ["interpreter only", "the flat twin is run by souffle itself (not by the reference model)",
                       "component features are those the wrapper generates (listed in coverage.constructs)"]
    return res
