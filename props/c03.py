"""C03 Results do not depend on thread count or thread schedule (interpreter)."""
import os, random, re
from vlib import runner
from vlib.core import Result
from . import progcommon as pc, diffcommon as dc

RULE = ("case = one generated C01-fragment program (no choice-domain, no auto-increment; scaled-up fact sets so that parallel "
        "scans get several chunks) run by the real interpreter at -j1 (baseline) and at -j2/-j3/-j4/-j8/-j16 with the guarded "
        "schedule-perturbation hook (random yields/spins at lock acquisition, lease and parallel-loop iteration points, "
        "SOUFFLE_VERIF_SCHED=<seed>:<1/p>); oracle = every output CSV equal as a set to the -j1 output, no duplicate "
        "lines, no abort/sanitizer report; a subset of cases runs on the ASan+UBSan tree. non-trivial = distinct program with "
        "derived tuples in which >= 2 worker threads passed a perturbation point in at least one variant run (hook counters). A "
        "compile-bound sample does the same with the executable `souffle -o -j4` builds (generated code compiled with the guard on).")

JS = [2, 3, 4, 8, 16]


def cfg_fn(rng):
    cfg = dc.base_cfg(rng)
    cfg["scale"] = rng.choice([2, 3, 4])
    cfg["max_facts"] = rng.choice([40, 80, 160])
    cfg["p_eqrel"] = 0.35         # eqrel relations are scanned in parallel through EquivalenceRelation::partition
    return cfg


def variants(prog, text, rng, d):
    out = []
    js = rng.sample(JS, 3)
    for j in js:
        s = rng.randrange(1, 1 << 30)
        inv = rng.choice([2, 8, 64])
        out.append(dict(name="-j%d sched=%d:%d" % (j, s, inv), cls="threads", args=["-j%d" % j],
                        env={"SOUFFLE_VERIF_SCHED": "%d:%d" % (s, inv), "SOUFFLE_VERIF_SCHED_LOG": os.path.join(d, "sched.%d.log" % j)},
                        logfile=os.path.join(d, "sched.%d.log" % j)))
    return out


def probe(v, run, d, od):
    try:
        with open(v["logfile"]) as f:
            m = re.search(r"threads=(\d+) points=(\d+) yields=(\d+)", f.read())
        return bool(m) and int(m.group(1)) >= 2
    except OSError:
        return False


def worker(arg):
    seed, souffle = arg
    return dc.run_case("C03", seed, souffle, variants, cfg_fn=cfg_fn, baseline_args=["-j1"], probe=probe)


def compiled_worker(arg):
    """the same property for a compiled executable: generated with -j4 (otherwise the synthesiser emits no parallel loops), run at -j1 and
    at three other thread counts with the perturbation hook (the generated code is compiled with the guard on)"""
    seed, souffle = arg
    from . import compiled
    from gen import progen, dl
    rng = random.Random(seed)
    prog = progen.generate(seed, cfg_fn(rng))
    text = dl.fmt_program(prog)
    rec = dict(seed=seed, hash=runner.prog_hash(text), features=sorted(prog.features) + ["compiled"], counts={})
    d = runner.case_dir("C03", seed)
    rec["dir"] = d
    runner.write_case(d, prog, text=text)
    r, ck = compiled.build_exe(souffle, d, jobs=4)
    rec["counts"]["compiles"] = 1
    if ck is not None or r.rc != 0:
        rec.update(status="skip", reason="compile-failed (C02)")
        return rec
    rb, ck = compiled.run_exe(d, outdir="cj1", jobs=1)
    if ck is not None or rb.rc != 0:
        rec.update(status="skip", reason="compiled-baseline-failed (C02)")
        return rec
    base, problems = runner.read_outputs(d, prog, outdir="cj1")
    if problems:
        rec.update(status="skip", reason="baseline-output-unreadable")
        return rec
    viols = []
    tags = dc.shape_tags(prog)
    T = ("|" + ",".join(tags)) if tags else ""
    eff = 0
    for j in rng.sample(JS, 3):
        od = "cj%d" % j
        env = {"SOUFFLE_VERIF_SCHED": "%d:%d" % (rng.randrange(1, 1 << 30), rng.choice([2, 8, 64])), "SOUFFLE_VERIF_SCHED_LOG": os.path.join(d, "csched.%d.log" % j)}
        rr, ck = compiled.run_exe(d, outdir=od, jobs=j, env=env)
        rec["counts"]["variant_runs"] = rec["counts"].get("variant_runs", 0) + 1
        if ck is not None:
            viols.append(("threads-compiled:crash:" + ck + T, "the compiled program died at -j%d (%s) where -j1 ran fine\n%s\n%s" % (j, ck, rr.err[-2000:], text)))
            continue
        if rr.rc != 0:
            viols.append(("threads-compiled:error-exit" + T, "the compiled program exited with %s at -j%d\n%s\n%s" % (rr.rc, j, rr.err[-1200:], text)))
            continue
        outs, problems = runner.read_outputs(d, prog, outdir=od)
        for p in problems:
            viols.append(("threads-compiled:output:" + p.split(" ")[0] + T, "-j%d: %s\n%s" % (j, p, text)))
        diffs = runner.diff_outputs(prog, outs, base, ("-j%d" % j, "-j1"))
        if diffs:
            viols.append(("threads-compiled:wrong-result" + T, "the compiled program's outputs at -j%d differ from -j1:\n  %s\n%s" % (j, "\n  ".join(diffs), text)))
        try:
            with open(env["SOUFFLE_VERIF_SCHED_LOG"]) as f:
                m = re.search(r"threads=(\d+)", f.read())
            if m and int(m.group(1)) >= 2:
                eff += 1
        except OSError:
            pass
    rec["counts"]["compiled_runs_with_ge2_threads"] = eff
    rec["nontrivial"] = eff > 0 and any(len(v) for k, v in base.items() if not k.startswith("e"))
    if viols:
        rec.update(status="viol", viols=viols[:3], program=text)
    else:
        rec.update(status="ok", sample=None)
    return rec


def any_worker(arg):
    kind, seed, souffle = arg
    return compiled_worker((seed, souffle)) if kind == "compiled" else worker((seed, souffle))


def check(tier, seed):
    t = pc.trees("plain", "san")
    n = 400 if tier == "quick" else 1600
    nsan = 40 if tier == "quick" else 160
    res = Result("exploration")
    res.rule = RULE
    base = seed * 1000000 + (0 if tier == "quick" else 50000) + 300000
    ncomp = 8 if tier == "quick" else 32
    jobs = [("compiled", base + 900000 + i, t["plain"]) for i in range(ncomp)]
    jobs += [("interp", base + i, t["plain"]) for i in range(n)] + [("interp", base + n + i, t["san"]) for i in range(nsan)]
    recs = runner.pmap(any_worker, jobs, nproc=8)
    dc.finish("C03", recs, res, n)
    res.assumptions = ["interleavings are those the OS scheduler plus injected yields/spins produce on 16 cores, not all interleavings",
                       "compiled executables: a small compile-bound sample per run (8 quick / 96 thorough)",
                       "programs are samples of the generator's distribution"]
    return res
