"""C03 Results do not depend on thread count or thread schedule (interpreter)."""
import os, random, re
from vlib import runner
from vlib.core import Result
from . import progcommon as pc, diffcommon as dc

RULE = ("case = one generated C01-fragment program (no choice-domain, no auto-increment; scaled-up fact sets so that parallel "
        "scans get several chunks) run by the real interpreter at -j1 (baseline) and at -j2/-j3/-j4/-j8/-j16 with the guarded "
        "schedule-perturbation hook (random yields/spins at lock acquisition, lease and parallel-loop iteration points, "
        "SOUFFLE_VERIF_SCHED=<seed>:<1/p>); oracle = every output CSV equal as a set to the -j1 output, no duplicate "
        "lines, no abort/sanitizer report; a subset of cases runs on the ASan+UBSan tree. non-trivial = distinct program with "
        "derived tuples in which >= 2 worker threads passed a perturbation point in at least one variant run (hook counters).")

JS = [2, 3, 4, 8, 16]


def cfg_fn(rng):
    cfg = dc.base_cfg(rng)
    cfg["scale"] = rng.choice([2, 3, 4])
    cfg["max_facts"] = rng.choice([40, 80, 160])
    cfg["p_eqrel"] = 0.0
    return cfg


def variants(prog, text, rng, d):
    out = []
    js = rng.sample(JS, 3)
    for j in js:
        s = rng.randrange(1, 1 << 30)
        inv = rng.choice([2, 8, 64])
        out.append(dict(name="-j%d sched=%d:%d" % (j, s, inv), cls="threads", args=["-j%d" % j],
                        env={"SOUFFLE_VERIF_SCHED": "%d:%d" % (s, inv), "SOUFFLE_VERIF_SCHED_LOG": os.path.join(d, "sched.%d.log" % j)},
                        logfile=os.path.join(d, "sched.%d.log" % j)))
    return out


def probe(v, run, d, od):
    try:
        with open(v["logfile"]) as f:
            m = re.search(r"threads=(\d+) points=(\d+) yields=(\d+)", f.read())
        return bool(m) and int(m.group(1)) >= 2
    except OSError:
        return False


def worker(arg):
    seed, souffle = arg
    return dc.run_case("C03", seed, souffle, variants, cfg_fn=cfg_fn, baseline_args=["-j1"], probe=probe)


def check(tier, seed):
    t = pc.trees("plain", "san")
    n = 400 if tier == "quick" else 2400
    nsan = 40 if tier == "quick" else 240
    res = Result("exploration")
    res.rule = RULE
    base = seed * 1000000 + (0 if tier == "quick" else 50000) + 300000
    recs = runner.pmap(worker, [(base + i, t["plain"]) for i in range(n)] + [(base + n + i, t["san"]) for i in range(nsan)], nproc=8)
    dc.finish("C03", recs, res, n)
    res.assumptions = ["interleavings are those the OS scheduler plus injected yields/spins produce on 16 cores, not all interleavings",
                       "interpreter only; compiled executables are not exercised by this check",
                       "programs are samples of the generator's distribution"]
    return res
