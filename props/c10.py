"""C10 Choice-domain results are functional, sound and maximal."""
import os, random, re
from vlib import runner
from vlib.core import Result
from . import progcommon as pc, tmpl

RULE = ("case = one template program with a choice-domain relation: non-recursive (candidates from facts / a join; one key, two "
        "separate keys, a composite key) or recursive (spanning tree `tree(x,y) :- tree(_,x), edge(x,y)` with key y; "
        "bijection matching with keys x and y; a chain `list(x,y) :- dom(y), list(_,x)`; `multikey`: 3-4 columns and 1-3 random keys - "
        "composite, overlapping, nested, permuted, with a repeated attribute - fed by one or two rules), many candidates per key, plus "
        "downstream rules reading the choice relation; run by the real interpreter at -j1 and at three of {2,3,4,8,16} "
        "threads with injected schedule perturbation. oracle (a contract, not equality with one expected file): (1) no two "
        "final tuples agree on a declared key; (2) soundness / well-foundedness: the least fixpoint of the relation's rules "
        "restricted to the final tuples is the whole final relation; (3) maximality: every tuple the rules derive in one "
        "step from the final database that is absent clashes with a present tuple on some declared key; (4) downstream "
        "relations equal what their rules give on the observed choice relation. non-trivial = distinct program and run in "
        "which some key had >= 2 candidates (a real choice was made).")

JS = [2, 3, 4, 8, 16]


def keys_clash(t, u, keys):
    return any(all(t[i] == u[i] for i in k) for k in keys)


def program(seed):
    """-> text, spec dict for the oracle"""
    rng = random.Random(seed)
    shape = rng.choice(["facts-1key", "facts-2keys", "facts-composite", "join", "tree", "matching", "list", "multikey", "multikey"])
    o = []
    spec = dict(shape=shape)
    if shape == "multikey":
        # any list of declared keys over a wider relation: composite keys, keys that share attributes, a key inside another one,
        # the same attributes in another order, an attribute named twice in one key
        ar = rng.randint(3, 4)
        names = ["a", "b", "c", "d"][:ar]
        doms = [rng.randint(2, 5) for _ in range(ar)]
        cand = sorted({tuple(rng.randrange(doms[i]) for i in range(ar)) for _ in range(rng.randint(4, 70))})
        keys = []
        for _ in range(rng.randint(1, 3)):
            k = [rng.randrange(ar) for _ in range(rng.choice([1, 1, 2, 2, 3]))]
            if keys and rng.random() < 0.35:
                prev = list(rng.choice(keys))
                k = rng.choice([prev[:1], prev[::-1], prev + prev[:1], sorted(set(prev))[:max(1, len(set(prev)) - 1)]])
            keys.append(tuple(k))
        def kfmt(k):
            return names[k[0]] if len(k) == 1 and rng.random() < 0.7 else "(" + ", ".join(names[i] for i in k) + ")"
        decl = "choice-domain " + ", ".join(kfmt(k) for k in keys)
        hv = ", ".join(names)
        o += [".decl cand(%s)" % ", ".join(n + ":number" for n in names)] + ["cand(%s)." % ", ".join(map(str, t)) for t in cand]
        o += [".decl ch(%s) %s" % (", ".join(n + ":number" for n in names), decl), ".output ch"]
        if rng.random() < 0.5:
            o += ["ch(%s) :- cand(%s)." % (hv, hv)]
        else:
            # two rules feed the relation (the guard has to look at what the other rule inserted)
            o += ["ch(%s) :- cand(%s), a %% 2 = 0." % (hv, hv), "ch(%s) :- cand(%s), a %% 2 != 0." % (hv, hv)]
        o += [".decl cnt(n:number)", ".output cnt", "cnt(n) :- n = count : { ch(%s) }." % ", ".join("_" * ar)]
        spec.update(keys=keys, derivable=cand, recursive=False, decl=decl)
        return "\n".join(o) + "\n", spec
    if shape in ("facts-1key", "facts-2keys", "facts-composite", "join"):
        nk, nv = rng.randint(2, 12), rng.randint(2, 12)
        cand = sorted({(rng.randrange(nk), rng.randrange(nv)) for _ in range(rng.randint(3, 60))})
        o += [".decl cand(k:number, v:number)"] + ["cand(%d, %d)." % t for t in cand]
        if shape == "join":
            f = rng.randint(2, 4)
            o += [".decl w(v:number)"] + ["w(%d)." % v for v in range(nv) if v % f == 0]
            derivable = [(k, v) for (k, v) in cand if v % f == 0]
            body = "cand(k, v), w(v)"
        else:
            derivable = list(cand)
            body = "cand(k, v)"
        if shape == "facts-2keys" or (shape == "join" and rng.random() < 0.4):
            decl, keys = "choice-domain k, v", [(0,), (1,)]
        elif shape == "facts-composite":
            decl, keys = "choice-domain (k, v)", [(0, 1)]
        else:
            decl, keys = rng.choice([("choice-domain k", [(0,)]), ("choice-domain v", [(1,)])])
        o += [".decl ch(k:number, v:number) %s" % decl, ".output ch", "ch(k, v) :- %s." % body]
        spec.update(keys=keys, derivable=derivable, recursive=False)
        o += [".decl cnt(n:number)", ".output cnt", "cnt(n) :- n = count : { ch(_, _) }."]
        o += [".decl dk(k:number)", ".output dk", "dk(k) :- ch(k, _)."]
        o += [".decl nk(k:number)", ".output nk", "nk(k) :- cand(k, _), !ch(k, _)."]
        spec["cand"] = cand
    elif shape == "tree":
        n = rng.randint(3, 14)
        edges = sorted({(rng.randrange(n), rng.randrange(n)) for _ in range(rng.randint(n, 4 * n))})
        root = rng.randrange(n)
        o += [".decl edge(a:number, b:number)"] + ["edge(%d, %d)." % e for e in edges]
        o += [".decl tree(a:number, b:number) choice-domain b", ".output tree",
              "tree(%d, %d)." % (root, root) if rng.random() < 0.5 else "tree(x, x) :- x = %d." % root,
              "tree(x, y) :- tree(_, x), edge(x, y)."]
        o += [".decl reach(x:number)", ".output reach", "reach(y) :- tree(_, y)."]
        spec.update(keys=[(1,)], edges=edges, root=root, recursive=True)
    elif shape == "matching":
        n = rng.randint(2, 10)
        pairs = sorted({(rng.randrange(n), rng.randrange(n)) for _ in range(rng.randint(2, 3 * n))})
        o += [".decl pair(a:number, b:number)"] + ["pair(%d, %d)." % p for p in pairs]
        o += [".decl m(a:number, b:number) choice-domain a, b", ".output m", "m(a, b) :- pair(a, b)."]
        o += [".decl msize(n:number)", ".output msize", "msize(n) :- n = count : { m(_, _) }."]
        spec.update(keys=[(0,), (1,)], derivable=pairs, recursive=False, shape="matching")
    else:
        n = rng.randint(2, 12)
        dom = sorted(rng.sample(range(1, 40), n))
        o += [".decl dom(x:number)"] + ["dom(%d)." % x for x in dom]
        o += [".decl list(p:number, x:number) choice-domain p, x", ".output list", "list(0, x) :- dom(x), x = %d." % dom[0],
              "list(x, y) :- dom(y), list(_, x)."]
        spec.update(keys=[(0,), (1,)], dom=dom, recursive=True)
    return "\n".join(o) + "\n", spec


def oracle(spec, rows, d, od):
    """-> list of (key, detail)"""
    bad = []
    F = set(rows)
    if len(F) != len(rows):
        bad.append(("duplicate-tuples", "the choice relation is printed with duplicate tuples"))
    keys = spec["keys"]
    L = sorted(F)
    for i, t in enumerate(L):
        for u in L[i + 1:]:
            if keys_clash(t, u, keys):
                bad.append(("not-functional", "two final tuples agree on a declared key: %s and %s (keys %s)" % (t, u, keys)))
                break
        if bad:
            break
    shape = spec["shape"]
    if not spec["recursive"]:
        der = set(spec["derivable"])
        if not F <= der:
            bad.append(("unsound", "final tuples that the rule does not derive: %s" % sorted(F - der)[:4]))
        for t in sorted(der - F):
            if not any(keys_clash(t, u, keys) for u in F):
                bad.append(("not-maximal", "derivable tuple %s is absent although it clashes with no present tuple (keys %s)" % (t, keys)))
                break
        multi = any(sum(1 for t in der if all(t[i] == u[i] for i in k)) >= 2 for u in der for k in keys)
    elif shape == "tree":
        edges, root = set(spec["edges"]), spec["root"]
        # least fixpoint restricted to F
        T = set()
        if (root, root) in F:
            T.add((root, root))
        changed = True
        while changed:
            changed = False
            nodes = {y for (_, y) in T}
            for (x, y) in F:
                if (x, y) not in T and x in nodes and (x, y) in edges:
                    T.add((x, y))
                    changed = True
        if T != F:
            bad.append(("unsound", "final tuples without a well-founded derivation from the final relation: %s" % sorted(F - T)[:4]))
        nodes = {y for (_, y) in F}
        der = {(root, root)} | {(x, y) for (x, y) in edges if x in nodes}
        for t in sorted(der - F):
            if not any(keys_clash(t, u, keys) for u in F):
                bad.append(("not-maximal", "derivable tuple %s is absent although no present tuple has the same key" % (t,)))
                break
        multi = any(sum(1 for (x, y) in der if y == b) >= 2 for (_, b) in der)
        reach = tmpl.read_rows(d, "reach", od)
        if reach is None or set(reach) != {(y,) for (_, y) in F}:
            bad.append(("downstream-wrong", "reach differs from the projection of the observed tree"))
    else:   # list
        dom = spec["dom"]
        T = set()
        if (0, dom[0]) in F:
            T.add((0, dom[0]))
        changed = True
        while changed:
            changed = False
            xs = {x for (_, x) in T}
            for (p, x) in F:
                if (p, x) not in T and p in xs and x in dom:
                    T.add((p, x))
                    changed = True
        if T != F:
            bad.append(("unsound", "final tuples without a well-founded derivation from the final relation: %s" % sorted(F - T)[:4]))
        xs = {x for (_, x) in F}
        der = {(0, dom[0])} | {(p, y) for p in xs for y in dom}
        for t in sorted(der - F):
            if not any(keys_clash(t, u, keys) for u in F):
                bad.append(("not-maximal", "derivable tuple %s is absent although it clashes with no present tuple" % (t,)))
                break
        multi = len(dom) >= 2
    if shape == "multikey":
        cnt = tmpl.read_rows(d, "cnt", od)
        if cnt != [(len(F),)]:
            bad.append(("downstream-wrong", "cnt = %s but the choice relation holds %d tuples" % (cnt, len(F))))
    if shape.startswith("facts") or shape == "join":
        cnt = tmpl.read_rows(d, "cnt", od)
        dk = tmpl.read_rows(d, "dk", od)
        nk = tmpl.read_rows(d, "nk", od)
        if cnt != [(len(F),)]:
            bad.append(("downstream-wrong", "cnt = %s but the choice relation holds %d tuples" % (cnt, len(F))))
        if dk is None or set(dk) != {(k,) for (k, _) in F}:
            bad.append(("downstream-wrong", "dk differs from the projection of the observed choice relation"))
        want_nk = {(k,) for (k, _) in spec["cand"] if not any(k == k2 for (k2, _) in F)}
        if nk is None or set(nk) != want_nk:
            bad.append(("downstream-wrong", "nk (keys of cand without a chosen tuple) differs from what the observed choice relation implies"))
    if shape == "matching":
        ms = tmpl.read_rows(d, "msize", od)
        if ms != [(len(F),)]:
            bad.append(("downstream-wrong", "msize = %s but m holds %d tuples" % (ms, len(F))))
    return bad, multi


def worker(arg):
    seed, souffle = arg[0], arg[1]
    compiled_mode = len(arg) > 2 and arg[2]
    rng = random.Random(seed ^ 0x2545F491)
    text, spec = program(seed)
    rec = dict(seed=seed, hash=runner.prog_hash(text), features=["choice-" + spec["shape"]], counts={})
    d = tmpl.setup_case("C10", seed, text)
    rec["dir"] = d
    rel = {"tree": "tree", "matching": "m", "list": "list"}.get(spec["shape"], "ch")
    runfn = tmpl.make_runner(souffle, d, compiled_mode)
    if runfn is None:
        rec.update(status="skip", reason="compile-failed (C02)")
        return rec
    if compiled_mode:
        rec["features"] = list(rec["features"]) + ["compiled"]
        rec["counts"]["compiled_cases"] = 1
    viols = []
    multi_any = False
    finals = set()
    for j in [1] + rng.sample(JS, 3):
        od = "j%d" % j
        env = tmpl.sched_env(rng, d, od) if j > 1 else None
        r, ck = runfn(j, od, env)
        rec["counts"]["runs"] = rec["counts"].get("runs", 0) + 1
        if ck is not None:
            viols.append(("crash:" + ck, "-j%d died (%s)\n%s\n%s" % (j, ck, r.err[-2000:], text)))
            continue
        if r.rc != 0:
            viols.append(("error-exit", "-j%d exited with %s\n%s\n%s" % (j, r.rc, r.err[-1500:], text)))
            continue
        rows = tmpl.read_rows(d, rel, od)
        if rows is None:
            viols.append(("output:missing", "-j%d: no output for %s\n%s" % (j, rel, text)))
            continue
        bad, multi = oracle(spec, rows, d, od)
        multi_any = multi_any or multi
        finals.add(tuple(sorted(rows)))
        for k, dtl in bad[:3]:
            viols.append((k + ":" + spec["shape"], "-j%d: %s\nfinal %s = %s\n%s" % (j, dtl, rel, sorted(rows)[:30], text)))
    rec["counts"]["distinct_final_relations_over_thread_counts"] = len(finals)
    rec["nontrivial"] = multi_any
    if viols:
        rec.update(status="viol", viols=viols[:4], program=text)
    else:
        rec.update(status="ok", sample=({"program": text[:1500]} if seed % 40 == 0 else None))
    return rec


def check(tier, seed):
    t = pc.trees("plain", "san")
    n = 480 if tier == "quick" else 2400
    nsan = 32 if tier == "quick" else 160
    res = Result("exploration")
    res.rule = RULE
    base = seed * 1000000 + (0 if tier == "quick" else 50000) + 100000
    ncomp = 4 if tier == "quick" else 16
    recs = runner.pmap(worker, [(base + 900000 + i, t["plain"], True) for i in range(ncomp)] + [(base + i, t["plain"]) for i in range(n)] +
                       [(base + n + i, t["san"]) for i in range(nsan)], nproc=8)
    pc.collect("C10", recs, res)
    res.min_nontrivial = n // 4
    res.assumptions = ["interpreter, plus a compile-bound sample of executables (4 quick / 48 thorough)", "template programs (7 shapes) with random facts",
                       "interleavings are those the OS scheduler plus injected yields/spins produce, not all interleavings"]
    return res
