"""C29 Lock-free union-find is linearizable (souffle::DisjointSet)."""
from .dscommon import run_ds

RULE = ("history = 2-4 client threads x <=K random union/sameSet/find ops over <=M nodes on the real DisjointSet; "
        "serial flavour: cooperative scheduler pre-empting at every load/store/edge of UnionFind.h, random switch "
        "probability per history; checks at every step (no parent cycle other than a self loop, no class larger than "
        "the closure of invoked unions), after quiescence (partition == closure of requested unions), per answer "
        "(sameSet/find consistent with invoked/completed unions) and exact linearizability search for <=14-op "
        "histories. distinct_nontrivial = distinct serial schedules (hash of decision sequence) + free-mode histories "
        "with overlapping operations.")


def check(tier, seed):
    q = tier == "quick"
    plans = [
        dict(flavour="serial", label="serial-small", args=["--threads", 3, "--ops", 3, "--nodes", 4], total=400000 if q else 4000000),
        dict(flavour="serial", label="serial-large", args=["--threads", 4, "--ops", 8, "--nodes", 8, "--budget", 2000000], total=80000 if q else 1000000),
        dict(flavour="free", label="free", args=["--threads", 8, "--ops", 2000, "--nodes", 48, "--fixed"], total=48 if q else 2000, chunk=3, timeout=300),
        dict(flavour="tsan", label="free-tsan", args=["--threads", 6, "--ops", 1000, "--nodes", 32, "--fixed"], total=16 if q else 400, chunk=1, timeout=600),
        dict(flavour="asan", label="free-asan", args=["--threads", 6, "--ops", 1000, "--nodes", 32, "--fixed"], total=16 if q else 400, chunk=1, timeout=600),
    ]
    res = run_ds("C29", "h_uf", tier, seed, plans, RULE)
    res.assumptions = ["x86-TSO hardware; weak-memory reorderings are visible only to ThreadSanitizer",
                       "random-walk schedules of the real code, not exhaustive enumeration of interleavings"]
    return res
