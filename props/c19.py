"""C19 Provenance is faithful: same results and valid proofs."""
import os, random, re
from vlib import runner
from vlib.core import Result
from . import progcommon as pc, diffcommon as dc
from gen import dl, progen, refeval

RULE = ("case = one generated program of the provenance fragment (number / unsigned / symbol columns, positive and negated atoms, "
        "constraints, arithmetic and string functors, let-bindings, recursion, eqrel; no aggregates, records, ADTs, "
        "disjunction) run by the real interpreter without provenance (baseline) and with -t explain; oracle = (1) same output "
        "relations; (2) for up to 40 output tuples the JSON proof tree printed by `explain R(t)` is checked by an independent "
        "proof checker over the program AST and the stratified least model: every node's tuple is in the model, the cited rule "
        "R<k> is the k-th rule of that relation, its positive body atoms are matched by the node's atom children under one "
        "substitution that also satisfies the negations and constraints against the model and yields the node's tuple as head, "
        "negated children are absent from the model, printed ground constraints are true, leaves are input facts; "
        "(3) `explain` of up to 10 tuples that are not in the model answers 'Tuple not found'. non-trivial = distinct program "
        "with >= 1 checked proof of depth >= 2.")

SOUFFLE = [None]
MAXQ = 40
DEPTH = 12        # proof trees are printed in full and grow exponentially with their height (two recursive atoms per rule): keep them bounded
DISABLE = ["MinimiseProgramTransformer", "RemoveRelationCopiesTransformer", "RemoveEmptyRelationsTransformer",
           "RemoveRedundantRelationsTransformer", "ReduceExistentialsTransformer", "ReplaceSingletonVariablesTransformer",
           "PartitionBodyLiteralsTransformer", "SimplifyConstantBinaryConstraintsTransformer", "RemoveRedundantSumsTransformer"]


def cfg_fn(rng):
    cfg = dict(p_records=0.0, p_adts=0.0, p_floats=0.0, p_aggregate=0.0, p_head_aggr=0.0, p_disj=0.0, p_multihead=0.0,
               p_range=0.0, p_nullary=0.0, p_eqrel=0.3, p_file_input=0.3, max_facts=10, p_recursive=0.6, p_negation=0.4)
    return cfg


# ------------------------------------------------------------------------------------------------ explain output parsing
class Node:
    __slots__ = ("text", "rule", "children", "axiom")

    def __init__(self, text=None, axiom=None):
        self.text, self.axiom, self.rule, self.children = text, axiom, None, []


def parse_blocks(out):
    """-> list of root Nodes, one per `explain` command, from souffle's JSON-ish output (strings are not escaped, so no json.loads)"""
    roots = []
    stack = []
    inrules = False
    for line in out.split("\n"):
        s = line.strip()
        if s.startswith('{ "proof":'):
            stack = []
            inrules = False
            roots.append(None)
            continue
        if not roots:
            continue
        if inrules:
            continue
        m = re.match(r'^\{ "premises": "(.*)",$', s)
        if m:
            n = Node(text=m.group(1))
            if stack:
                stack[-1].children.append(n)
            elif roots[-1] is None:
                roots[-1] = n
            stack.append(n)
            continue
        m = re.match(r'^"rule-number": "\(R(\d+)\)",$', s)
        if m and stack:
            stack[-1].rule = int(m.group(1))
            continue
        m = re.match(r'^\{ "axiom": "(.*?)"\}(,)?\s*(\])?\s*(,"rules": \[)?$', s)
        if m:
            n = Node(axiom=m.group(1))
            if stack:
                stack[-1].children.append(n)
            elif roots[-1] is None:
                roots[-1] = n
            if m.group(4):
                inrules = True
            continue
        if s.startswith("}"):
            if stack:
                stack.pop()
            if '"rules"' in s:
                inrules = True
            continue
    return roots


TOK = re.compile(r'"([^"]*)"|(-?\d+)')


def parse_atom(text):
    """'rel(1, "a b")' -> (rel, [values as python ints / strs]) or None"""
    m = re.match(r'^([A-Za-z_][\w.]*)\((.*)\)$', text.strip())
    if not m:
        return None
    vals = []
    pos = 0
    body = m.group(2)
    while pos < len(body):
        mm = TOK.match(body, pos)
        if not mm:
            return None
        vals.append(mm.group(1) if mm.group(1) is not None else int(mm.group(2)))
        pos = mm.end()
        mm2 = re.match(r"\s*,\s*", body[pos:])
        if mm2:
            pos += mm2.end()
        elif body[pos:].strip() == "":
            break
        else:
            return None
    return m.group(1), vals


def to_model(rel, vals):
    """python values -> refeval tuple for relation rel (numbers: int; unsigned: int; symbols: str)"""
    out = []
    for (_, t), v in zip(rel.attrs, vals):
        if t.kind == "symbol":
            if not isinstance(v, str):
                return None
            out.append(v)
        else:
            if not isinstance(v, int):
                return None
            out.append(v)
    return tuple(out)


def fmt_query(rel, tup):
    parts = []
    for (_, t), v in zip(rel.attrs, tup):
        if t.kind == "symbol":
            if '"' in v or "\\" in v or "\n" in v:
                return None
            parts.append('"%s"' % v)
        else:
            parts.append(str(v))
    return "%s(%s)" % (rel.name, ", ".join(parts))


NAME = r"[A-Za-z_+?@][\w.+?@-]*"


def parse_rules(out):
    """all printed rules of the explain output: (head relation, k) -> (positive atom relations in order, number of negated atoms, text)"""
    rules = {}
    for m in re.finditer(r'\{ "rule-number": "\(R(\d+)\)", "rule": "(.*)"\}', out):
        k, text = int(m.group(1)), m.group(2)
        hm = re.match(r"^(%s)\(" % NAME, text) or re.match(r"^(%s) :-" % NAME, text)
        if not hm:
            continue
        lines = text.split("\\n")[1:]
        pos, neg = [], 0
        for l in lines:
            l = l.strip()
            mm = re.match(r"^(!?)(%s)\(" % NAME, l)
            if mm and mm.group(2) in CONSTRAINT_FUNCS:
                continue
            if mm and not re.match(r"^(%s)\(.*\)\s*(<=|>=|!=|=|<|>)" % NAME, l):
                if mm.group(1):
                    neg += 1
                else:
                    pos.append(mm.group(2))
        rules.setdefault((hm.group(1), k), (pos, neg, text))
    return rules


CONSTRAINT_FUNCS = ("contains", "match")


def body_atoms(c):
    """positive body atoms of a source clause in order; souffle drops textually repeated atoms before provenance sees the clause"""
    out, seen = [], set()
    for l in c.body:
        if isinstance(l, dl.Atom):
            t = dl.fmt_atom(l)
            if t not in seen:
                seen.add(t)
                out.append(l)
    return out


def has_symbol_order_constraint(prog):
    """symbol inequalities are printed with the symbols' ordinal numbers in proofs, which cannot be checked from the text"""
    found = []

    def lit(l):
        if isinstance(l, dl.Cmp) and l.kind == "symbol" and l.op in ("<", "<=", ">", ">="):
            found.append(1)
        if isinstance(l, dl.Disj):
            for alt in l.alts:
                for x in alt:
                    lit(x)
    for c in prog.clauses:
        for l in c.body:
            lit(l)
    return bool(found)


class Checker:
    def __init__(self, prog, ev, printed_rules, strong):
        self.prog, self.ev, self.db = prog, ev, ev.db
        self.rels = {r.name: r for r in prog.rels}
        self.printed = printed_rules
        self.strong = strong
        self.symorder = has_symbol_order_constraint(prog)
        self.rules = {}
        for c in prog.clauses:
            if c.body and len(c.heads) == 1:
                self.rules.setdefault(c.heads[0].rel, []).append(c)
        self.problems = []
        self.nodes = 0
        self.strong_nodes = 0
        self.maxdepth = 0
        self.cutoffs = 0
        self.unchecked = 0
        self.path = []          # texts of the inner nodes from the root to the current node
        self.repeats = 0

    def bad(self, what, node):
        self.problems.append((what, (node.text or node.axiom or "")[:200]))

    def leaf_kind(self, a):
        if a.startswith("subproof "):
            return "cutoff"
        if a.startswith("!"):
            return "neg"
        if a.startswith(tuple(f + "(" for f in CONSTRAINT_FUNCS)):
            return "constraint"
        if parse_atom(a) is not None:
            return "atom"
        if re.match(r"^(%s)\(" % NAME, a):
            return "atom-uninterpretable"
        return "constraint"

    def check(self, node, depth=1):
        """returns (rel name, model tuple or None) for atom nodes, None for other leaves"""
        self.maxdepth = max(self.maxdepth, depth)
        if node.axiom is not None:
            a = node.axiom
            kind = self.leaf_kind(a)
            if kind == "cutoff":
                self.cutoffs += 1
                return ("?", None)
            if kind == "neg":
                pn = parse_atom(a[1:])
                if pn is not None and pn[0] in self.rels and len(pn[1]) == len(self.rels[pn[0]].attrs) and "functor_" not in a and "_" not in [x for x in pn[1] if isinstance(x, str)]:
                    tn = to_model(self.rels[pn[0]], pn[1])
                    if tn is not None and tn in self.db[pn[0]]:
                        self.bad("negated-atom-is-in-result", node)
                return None
            if kind == "constraint":
                m = re.match(r'^(-?\d+|"[^"]*") (<=|>=|!=|=|<|>) (-?\d+|"[^"]*")$', a)
                if m:
                    x, op, y = m.group(1), m.group(2), m.group(3)
                    if x[0] != '"' and y[0] != '"' and (op in ("=", "!=") or not self.symorder):
                        x, y = int(x), int(y)
                        if not {"<": x < y, "<=": x <= y, ">": x > y, ">=": x >= y, "=": x == y, "!=": x != y}[op]:
                            self.bad("false-constraint", node)
                    elif x[0] == '"' and y[0] == '"' and op in ("=", "!="):
                        if (x == y) != (op == "="):
                            self.bad("false-constraint", node)
                return None
            if kind == "atom-uninterpretable":
                self.unchecked += 1
                return (re.match(r"^(%s)\(" % NAME, a).group(1), None)
            pa = parse_atom(a)
            if pa[0] not in self.rels:
                self.unchecked += 1
                return (pa[0], None)
            rel = self.rels[pa[0]]
            t = to_model(rel, pa[1]) if len(pa[1]) == len(rel.attrs) else None
            if t is None:
                self.bad("leaf-malformed", node)
                return (rel.name, None)
            if "eqrel" in rel.quals:
                if t not in self.db[rel.name]:
                    self.bad("leaf-not-in-result", node)
            elif t not in set(rel.facts):
                self.bad("leaf-not-a-fact", node)
            return (rel.name, t)
        # inner node
        self.nodes += 1
        again = node.text in self.path
        cut0 = self.cutoffs
        self.path.append(node.text)
        kids = [self.check(ch, depth + 1) for ch in node.children]
        self.path.pop()
        if again:
            # the tuple is proven from itself; souffle's search is a function of the tuple, so the loop never ends: it is only
            # reported when the branch below is in fact still open at the depth limit (a finite detour would still be a proof)
            self.repeats += 1
            if self.cutoffs > cut0:
                self.bad("circular-proof: the tuple is its own premise and the branch never reaches facts", node)
        hm = re.match(r"^(%s)\(" % NAME, node.text)
        relname = hm.group(1) if hm else "?"
        atom_kids = [k for k in kids if k is not None]
        nneg = sum(1 for ch in node.children if ch.axiom is not None and ch.axiom.startswith("!"))
        # the cited rule, as souffle itself prints it
        pr = self.printed.get((relname, node.rule))
        if pr is None:
            self.bad("cited-rule-not-listed", node)
        elif "?" not in [k[0] for k in atom_kids]:
            if [k[0] for k in atom_kids] != pr[0]:
                self.bad("children-do-not-follow-cited-rule: rule atoms %s, children %s" % (pr[0], [k[0] for k in atom_kids]), node)
            elif nneg != pr[1]:
                self.bad("negated-children-do-not-follow-cited-rule: rule has %d, node has %d" % (pr[1], nneg), node)
        pa = parse_atom(node.text)
        if pa is None or pa[0] not in self.rels:
            self.unchecked += 1
            return (relname, None)
        rel = self.rels[pa[0]]
        t = to_model(rel, pa[1]) if len(pa[1]) == len(rel.attrs) else None
        if t is None:
            self.bad("node-malformed", node)
            return (rel.name, None)
        if t not in self.db[rel.name]:
            self.bad("node-tuple-not-in-result", node)
        if "eqrel" in rel.quals or not self.strong:
            return (rel.name, t)         # eqrel relations are expanded into synthetic rules: only membership is checked
        if any(k[1] is None for k in atom_kids):
            self.unchecked += 1
            return (rel.name, t)
        # strong check: some source rule of the relation is instantiated by the children
        cands = [c for c in self.rules.get(rel.name, []) if [l.rel for l in body_atoms(c)] == [k[0] for k in atom_kids]]
        if not cands:
            self.bad("no-source-rule-with-these-body-atoms", node)
            return (rel.name, t)
        self.strong_nodes += 1
        for c in cands:
            env = {}
            for lit, k in zip(body_atoms(c), atom_kids):
                for a, v in zip(lit.args, k[1]):
                    env = self.ev.match(a, v, env) if env is not None else None
            if env is None:
                continue
            rest = [l for l in c.body if not isinstance(l, dl.Atom)]
            try:
                for e in self.ev.solve(rest, env):
                    try:
                        h = tuple(self.ev.ev(a, e) for a in c.heads[0].args)
                    except refeval.NoValue:
                        continue
                    if h == t:
                        return (rel.name, t)
            except (refeval.RefError, refeval.Undefined):
                self.unchecked += 1
                return (rel.name, t)
        self.bad("children-instantiate-no-rule-of-the-relation", node)
        return (rel.name, t)


def add_cyclic_mutual(prog, rng):
    """relations that are mutually recursive over edge relations with cycles: a tuple is then also derivable from its own consequences,
    and only the level annotations keep the proof search from choosing such a derivation (every tuple has a proof from facts, and that is
    the one that has to be shown)"""
    V, A, C = dl.Var, dl.Atom, dl.Clause
    k = rng.randint(2, 3)                      # relations on the cycle
    dom = rng.randint(3, 7)
    arity = rng.choice([1, 1, 2])
    names = ["mr_%s" % "abc"[i] for i in range(k)]
    src = dl.Relation("mr_s", [("a%d" % j, dl.NUMBER) for j in range(arity)])
    src.facts = sorted({tuple(rng.randint(0, dom) for _ in range(arity)) for _ in range(rng.randint(1, 2))})
    prog.rels.append(src)
    for i, n in enumerate(names):
        prog.rels.append(dl.Relation(n, [("a%d" % j, dl.NUMBER) for j in range(arity)], is_output=True))
        g = dl.Relation("mr_g%d" % i, [("a0", dl.NUMBER), ("a1", dl.NUMBER)])
        g.facts = sorted({(rng.randint(0, dom), rng.randint(0, dom)) for _ in range(rng.randint(dom, 3 * dom))})
        prog.rels.append(g)
    start = rng.randrange(k)
    hv = [V("x")] + ([V("w")] if arity == 2 else [])
    bv = [V("y")] + ([V("w")] if arity == 2 else [])
    prog.clauses.append(C([A(names[start], list(hv))], [A("mr_s", list(hv))]))
    for i, n in enumerate(names):
        prev = names[(i - 1) % k]
        body = [A(prev, list(bv)), A("mr_g%d" % i, [V("y"), V("x")])]
        if rng.random() < 0.3:
            body.reverse()
        prog.clauses.append(C([A(n, list(hv))], body))
    if rng.random() < 0.4:
        # a directly recursive rule next to the mutual ones
        n = rng.choice(names)
        prog.clauses.append(C([A(n, list(hv))], [A(n, list(bv)), A("mr_g0", [V("x"), V("y")])]))
    prog.features.add("cyclic-mutual-%d" % k)


def worker(arg):
    seed, souffle = arg[0], arg[1]
    compiled_mode = len(arg) > 2 and arg[2] == "compiled"
    rng = random.Random(seed)
    prog = progen.generate(seed, cfg_fn(rng))
    if rng.random() < (0.7 if compiled_mode else 0.4):
        add_cyclic_mutual(prog, rng)
    text = dl.fmt_program(prog)
    rec = dict(seed=seed, hash=runner.prog_hash(text), features=sorted(prog.features) + (["compiled"] if compiled_mode else []), counts={})
    try:
        db, ev = pc.reference(prog)
    except refeval.Undefined:
        rec.update(status="skip", reason="left-defined-domain")
        return rec
    except refeval.RefError as e:
        rec.update(status="error", detail="reference evaluator: %s\n%s" % (e, text))
        return rec
    d = runner.case_dir("C19", seed)
    rec["dir"] = d
    runner.write_case(d, prog, text=text)
    base = runner.run_souffle(souffle, d, outdir="base", timeout=120)
    if runner.crash_key(base) is not None or base.rc != 0:
        rec.update(status="skip", reason="baseline-" + (runner.crash_key(base) or "rejected").split(":")[0])
        return rec
    bouts, problems = runner.read_outputs(d, prog, outdir="base")
    if problems or runner.diff_outputs(prog, bouts, db):
        rec.update(status="skip", reason="baseline-differs-from-model (C01)")
        return rec
    # queries
    outrels = [r for r in prog.rels if r.is_output and not r.is_input and not r.facts or r.name == "eq"]
    cands = []
    for r in prog.rels:
        if r.name.startswith("e") and r.name != "eq":
            continue
        for t in sorted(db[r.name], key=repr):
            q = fmt_query(r, t)
            if q is not None:
                cands.append((r, t, q))
    rng.shuffle(cands)
    members = cands[:MAXQ]
    non = []
    tries = 0
    idb = [r for r in prog.rels if not r.name.startswith("e") and r.attrs]
    while idb and len(non) < 10 and tries < 200:
        tries += 1
        r = rng.choice(idb)
        t = tuple((rng.choice(["a", "zz", "k_9", "x1", ""]) if ty.kind == "symbol" else rng.randint(-9 if ty.kind == "number" else 0, 50)) for (_, ty) in r.attrs)
        if t not in db[r.name] and "eqrel" not in r.quals:
            non.append((r, t, fmt_query(r, t)))
    script = "format json\nsetdepth %d\n" % DEPTH + "".join("explain %s\n" % q for (_, _, q) in members + non) + "exit\n"
    viols = []
    tags = dc.shape_tags(prog)
    deep_total = 0
    configs = (("compiled", [], False),) if compiled_mode else (("default", [], False), ("no-ast-opts", ["--disable-transformers=" + ",".join(DISABLE)], True))
    for (cname, extra, strong) in configs:
        od = "prov-" + cname
        K = lambda k: "%s%s" % (k, "" if cname == "default" else "@" + cname)
        if compiled_mode:
            # generated code: souffle -t explain -o, the executable then offers the same explain prompt
            from . import compiled
            b, bk = compiled.build_exe(souffle, d, exe="exe_prov", extra=["-t", "explain"])
            rec["counts"]["compiles"] = 1
            if bk is not None or b.rc != 0:
                viols.append((K("provenance:compile-failed" + (":" + bk if bk else "")), "souffle -t explain -o fails (%s, exit %s)\n%s\n%s" % (bk, b.rc, b.err[-2500:], text)))
                continue
            os.makedirs(os.path.join(d, od), exist_ok=True)
            run = runner.run_cmd([os.path.join(d, "exe_prov"), "-F.", "-D" + od], d, None, 240, script)
        else:
            run = runner.run_souffle(souffle, d, args=["-t", "explain"] + extra, outdir=od, timeout=240, stdin=script)
        ck = runner.crash_key(run)
        if ck == "timeout":
            # printing 40 full proof trees can legitimately take long (a tree of height h over a rule with two recursive atoms has
            # 2^h nodes); the statement promises valid proofs, not fast ones: the case is set aside, not reported
            rec["counts"]["explain_timeouts"] = rec["counts"].get("explain_timeouts", 0) + 1
            continue
        if ck is not None:
            viols.append((K("provenance:crash:" + ck), "souffle -t explain %s died (%s)\n%s\n%s" % (" ".join(extra), ck, run.err[-2500:], text)))
            continue
        if run.rc != 0:
            viols.append((K("provenance:error-exit"), "souffle -t explain %s exited with %s\n%s\n%s" % (" ".join(extra), run.rc, run.err[-1500:], text)))
            continue
        pouts, problems = runner.read_outputs(d, prog, outdir=od)
        for p in problems:
            viols.append((K("provenance:output:" + p.split(" ")[0]), p + "\n" + text))
        diffs = runner.diff_outputs(prog, pouts, bouts, ("-t explain", "baseline"))
        if diffs:
            viols.append((K("provenance:wrong-result"), "-t explain %s changes the output relations:\n  %s\n%s" % (" ".join(extra), "\n  ".join(diffs), text)))
        roots = parse_blocks(run.out)
        if len(roots) != len(members) + len(non):
            viols.append((K("explain:answers-missing"), "%d explain commands, %d answers\n%s\n%s" % (len(members) + len(non), len(roots), run.out[-1500:], text)))
            continue
        chk = Checker(prog, ev, parse_rules(run.out), strong)
        deep = 0
        for (r, t, q), root in zip(members, roots):
            if root is None:
                viols.append((K("explain:no-proof"), "no proof printed for %s\n%s" % (q, text)))
                continue
            if root.axiom is not None and root.text is None and root.axiom in ("Tuple not found", "Relation not found"):
                viols.append((K("explain:member-not-found"), "explain %s answers '%s' although the tuple is in the result\n%s" % (q, root.axiom, text)))
                continue
            before = len(chk.problems)
            d0 = chk.maxdepth
            chk.maxdepth = 0
            got = chk.check(root)
            if chk.maxdepth >= 2:
                deep += 1
            chk.maxdepth = max(chk.maxdepth, d0)
            if got is not None and got[1] is not None and got != (r.name, t):
                chk.problems.append(("root-proves-another-tuple", q))
            for (what, where) in chk.problems[before:before + 3]:
                key = re.sub(r"\d+", "N", what.split(":")[0])
                viols.append((K("explain:invalid-proof:" + key), "[%s] proof of %s is not valid: %s at node %s\n%s" % (cname, q, what, where, text)))
        for (r, t, q), root in zip(non, roots[len(members):]):
            if root is None or root.axiom != "Tuple not found":
                viols.append((K("explain:non-member-explained"), "explain %s (not in the result) does not answer 'Tuple not found': %r\n%s" % (
                    q, (root.axiom if root is not None else None), text)))
        # souffle builds proofs from minimal-level subproofs, so no proof is higher than the total number of fixpoint rounds (plus one
        # level per stratum); a proof still cut off at the depth limit although the model needs far fewer rounds is circular
        height_bound = sum(v for v in ev.rounds.values()) + len(ev.rounds) + 2
        if chk.cutoffs and height_bound < DEPTH - 2:
            viols.append((K("explain:proof-deeper-than-any-derivation"), "[%s] %d proof branches were still open at the depth limit although the least model needs only %d rounds over all strata (a circular proof?)\n%s" % (
                cname, chk.cutoffs, height_bound, text)))
        c = rec["counts"]
        for k, v in (("proofs_checked", len(members)), ("proof_nodes", chk.nodes), ("proof_nodes_strongly_checked", chk.strong_nodes),
                     ("proofs_depth_ge2", deep), ("depth_cutoffs", chk.cutoffs), ("tuples_repeated_on_their_own_proof_path", chk.repeats), ("nodes_not_interpretable", chk.unchecked), ("non_members_asked", len(non))):
            c[k] = c.get(k, 0) + v
        deep_total += deep
    rec["nontrivial"] = deep_total >= 1
    if viols:
        seen = set()
        uniq = []
        for k, dtl in viols:
            if k not in seen:
                seen.add(k)
                uniq.append((k + ("|" + ",".join(tags) if tags else ""), dtl))
        rec.update(status="viol", viols=uniq, program=text)
    else:
        rec.update(status="ok", sample=pc.sample_of(prog, text) if seed % 50 == 0 else None)
    return rec


def check(tier, seed):
    t = pc.trees("plain", "san")
    n = 400 if tier == "quick" else 1600
    nsan = 24 if tier == "quick" else 96
    ncomp = 6 if tier == "quick" else 24
    res = Result("exploration")
    res.rule = RULE
    base = seed * 1000000 + (0 if tier == "quick" else 50000) + 190000
    recs = runner.pmap(worker, [(base + i, t["plain"]) for i in range(n)] + [(base + n + i, t["san"]) for i in range(nsan)] +
                      [(base + n + nsan + i, t["plain"], "compiled") for i in range(ncomp)])
    pc.collect("C19", recs, res)
    res.min_nontrivial = n // 10
    res.assumptions = ["mostly the interpreter; generated code (souffle -t explain -o) on a few programs per run (compile-bound)", "symbols containing quotes cannot be asked for in the explain command language and are not queried",
                       "eqrel relations: membership of proof nodes only (their rules are synthetic)",
                       "the reference evaluator's value semantics are right (cases where the baseline disagrees with it are skipped: C01)"]
    return res
