"""C22 Auto-increment values are unique within a run."""
import os, random, re
from vlib import runner
from vlib.core import Result
from . import progcommon as pc, tmpl

RULE = ("case = one template program in which 2-5 non-recursive rules (scans, 2- and 3-way joins, rules sharing the counter, "
        "autoinc() in one or two head columns, inside an arithmetic expression, in a rule of a later stratum behind a recursive stratum and a negation) derive 10^2-10^4 tuples with autoinc(); "
        "run by the real interpreter at -j1 and at three thread counts from {2,3,4,8,16} with injected schedule perturbation; "
        "oracle = the multiset of all values that autoinc() wrote (designated columns of all output relations) has no "
        "duplicate, and every relation holds exactly as many tuples as its rule has derivations (computed in Python), i.e. "
        "no derivation was lost by two evaluations getting the same value. non-trivial = run at -j>=2 with >= 1000 "
        "autoinc() evaluations.")

JS = [2, 3, 4, 8, 16]


def program(seed):
    rng = random.Random(seed)
    n = rng.choice([12, 25, 40, 70, 120])
    m = rng.choice([3, 5, 8])
    o = [".decl n(x:number)", "n(x) :- x = range(0, %d)." % n,
         ".decl k(x:number)", "k(x) :- x = range(0, %d)." % m]
    exp = {}      # relation -> (expected tuple count, [autoinc column indexes])
    nrules = rng.randint(2, 5)
    for i in range(nrules):
        shape = rng.choice(["scan", "join2", "join3", "two-ids", "filtered", "second-rule", "arith", "later-stratum"])
        name = "a%d" % i
        if shape == "scan":
            o += [".decl %s(x:number, id:number)" % name, ".output %s" % name, "%s(x, autoinc()) :- n(x)." % name]
            exp[name] = (n, [1])
        elif shape == "join2":
            o += [".decl %s(x:number, y:number, id:number)" % name, ".output %s" % name, "%s(x, y, autoinc()) :- n(x), n(y), x < y." % name]
            exp[name] = (n * (n - 1) // 2, [2])
        elif shape == "join3":
            o += [".decl %s(id:number, x:number, y:number, z:number)" % name, ".output %s" % name,
                  "%s(autoinc(), x, y, z) :- n(x), k(y), k(z), y != z." % name]
            exp[name] = (n * m * (m - 1), [0])
        elif shape == "two-ids":
            o += [".decl %s(id1:number, x:number, id2:number)" % name, ".output %s" % name, "%s(autoinc(), x, autoinc()) :- n(x), k(_)." % name]
            # k(_) is existential: one derivation per x
            exp[name] = (n, [0, 2])
        elif shape == "filtered":
            c = rng.randint(2, 5)
            o += [".decl %s(x:number, id:number)" % name, ".output %s" % name, "%s(x, autoinc()) :- n(x), k(y), x %% %d = y." % (name, c)]
            exp[name] = (sum(1 for x in range(n) for y in range(m) if x % c == y), [1])
        elif shape == "arith":
            # the counter value inside an expression: id = 2 * value + 1
            o += [".decl %s(x:number, id:number)" % name, ".output %s" % name, "%s(x, autoinc() * 2 + 1) :- n(x), k(_)." % name]
            exp[name] = (n, [1], lambda v: (v - 1) // 2 if v % 2 == 1 else ("not 2v+1", v))
        elif shape == "later-stratum":
            # a recursive stratum and a negation lie between this rule and the earlier users of the counter
            o += [".decl %s_r(x:number)" % name, "%s_r(0)." % name, "%s_r(x + 1) :- %s_r(x), x < %d." % (name, name, n // 2),
                  ".decl %s(x:number, id:number)" % name, ".output %s" % name, "%s(x, autoinc()) :- n(x), !%s_r(x)." % (name, name)]
            exp[name] = (n - (n // 2 + 1), [1])
        else:
            o += [".decl %s(x:number, id:number)" % name, ".output %s" % name, "%s(x, autoinc()) :- n(x).", "%s(x + 100000, autoinc()) :- n(x), k(0)."]
            o[-2] = o[-2] % name
            o[-1] = o[-1] % name
            exp[name] = (2 * n, [1])
    return "\n".join(o) + "\n", exp, sum(e[0] * len(e[1]) for e in exp.values())


def worker(arg):
    seed, souffle = arg[0], arg[1]
    compiled_mode = len(arg) > 2 and arg[2]
    rng = random.Random(seed ^ 0x5bd1e995)
    text, exp, total = program(seed)
    rec = dict(seed=seed, hash=runner.prog_hash(text), features=["autoinc"], counts={})
    d = tmpl.setup_case("C22", seed, text)
    rec["dir"] = d
    runfn = tmpl.make_runner(souffle, d, compiled_mode)
    if runfn is None:
        rec.update(status="skip", reason="compile-failed (C02)")
        return rec
    if compiled_mode:
        rec["features"] = list(rec["features"]) + ["compiled"]
        rec["counts"]["compiled_cases"] = 1
    viols = []
    active = 0
    for j in [1] + rng.sample(JS, 3):
        od = "j%d" % j
        env = tmpl.sched_env(rng, d, od) if j > 1 else None
        r, ck = runfn(j, od, env)
        rec["counts"]["runs"] = rec["counts"].get("runs", 0) + 1
        if ck is not None:
            viols.append(("crash:" + ck, "-j%d died (%s)\n%s\n%s" % (j, ck, r.err[-2000:], text)))
            continue
        if r.rc != 0:
            viols.append(("error-exit", "-j%d exited with %s\n%s\n%s" % (j, r.rc, r.err[-1500:], text)))
            continue
        ids = []
        for name, e in sorted(exp.items()):
            cnt, cols = e[0], e[1]
            dec = e[2] if len(e) > 2 else (lambda v: v)
            rows = tmpl.read_rows(d, name, od)
            if rows is None:
                viols.append(("output:missing", "-j%d: no output for %s\n%s" % (j, name, text)))
                continue
            if len(rows) != cnt:
                viols.append(("lost-derivations", "-j%d: %s holds %d tuples, its rule has %d derivations (each gets a fresh autoinc value, so none can coincide)\n%s" % (
                    j, name, len(rows), cnt, text)))
            for row in rows:
                for c in cols:
                    ids.append(dec(row[c]))
        if len(set(ids)) != len(ids):
            seen, dup = set(), []
            for x in ids:
                if x in seen:
                    dup.append(x)
                seen.add(x)
            viols.append(("duplicate-value", "-j%d: autoinc() yielded the same value more than once: %s (of %d values)\n%s" % (j, sorted(set(dup))[:6], len(ids), text)))
        rec["counts"]["autoinc_values_observed"] = rec["counts"].get("autoinc_values_observed", 0) + len(ids)
        if j > 1:
            try:
                with open(os.path.join(d, "sched.%s.log" % od)) as f:
                    m = re.search(r"threads=(\d+)", f.read())
                if m and int(m.group(1)) >= 2:
                    active += 1
                    rec["counts"]["runs_with_ge2_active_threads"] = rec["counts"].get("runs_with_ge2_active_threads", 0) + 1
            except OSError:
                pass
    rec["nontrivial"] = active >= 1 and total >= 1000
    if viols:
        rec.update(status="viol", viols=viols[:4], program=text)
    else:
        rec.update(status="ok", sample=({"program": text} if seed % 40 == 0 else None))
    return rec


def check(tier, seed):
    t = pc.trees("plain", "san")
    n = 240 if tier == "quick" else 1200
    nsan = 16 if tier == "quick" else 80
    res = Result("exploration")
    res.rule = RULE
    base = seed * 1000000 + (0 if tier == "quick" else 50000) + 220000
    ncomp = 4 if tier == "quick" else 16
    recs = runner.pmap(worker, [(base + 900000 + i, t["plain"], True) for i in range(ncomp)] + [(base + i, t["plain"]) for i in range(n)] +
                       [(base + n + i, t["san"]) for i in range(nsan)], nproc=6)
    pc.collect("C22", recs, res)
    res.min_nontrivial = n // 10
    res.assumptions = ["interpreter, plus a compile-bound sample of executables (4 quick / 48 thorough)", "interleavings are those the OS scheduler plus injected yields/spins produce, not all interleavings",
                       "template programs (non-recursive rules; souffle rejects autoinc() in recursive rules)"]
    return res
