"""C01 Evaluation computes the stratified least model (interpreter vs independent reference evaluator)."""
import os, random
from vlib import runner
from vlib.core import Result
from . import progcommon as pc, diffcommon as dc
from gen import dl, progen, refeval

RULE = ("case = one generated program (typed, stratified, terminating by construction: facts inline and in files, positive/"
        "negated atoms, constraints, arithmetic/string functors, records, ADTs, subset/union types, disjunction, multiple "
        "heads, range, count/sum/min/max/mean incl. empty sets, linear/non-linear/mutual recursion) run by the ASan+UBSan "
        "interpreter; oracle = naive stratified evaluation by the Python reference model; every output relation is compared "
        "as a set and checked for duplicate lines. non-trivial = distinct program text with >=1 non-empty derived relation "
        "and at least one of recursion/negation/aggregate/range/record/ADT.")

SOUFFLE = {}


def cfg_fn(rng):
    cfg = {}
    if rng.random() < 0.25:
        cfg["sinks_only"] = True      # only sinks are output, so intermediate relations can be expired
    if rng.random() < 0.3:
        cfg["p_aggregate"] = 0.6
        cfg["p_head_aggr"] = 0.2
    if rng.random() < 0.3:
        cfg["p_recursive"] = 0.9
    if rng.random() < 0.2:
        cfg["max_facts"] = 3          # tiny / empty inputs: aggregates over empty sets
    if rng.random() < 0.2:
        cfg["p_negation"] = 0.7
    return cfg


def wrong_key(prog, diffs):
    """'wrong-result|<shape tags>'; the aggr-inject-rec tag (a recorded finding) is kept only if every differing relation
    depends on a clause of that shape, so that it cannot hide a wrong result elsewhere in the same program"""
    tags = set(dc.shape_tags(prog))
    if "aggr-inject-rec" in tags:
        tainted = dc.downstream_of_inject_rec(prog)
        if not all(d.split(":")[0] in tainted for d in diffs):
            tags.discard("aggr-inject-rec")
    tags &= {"aggr-inject-rec"}           # the only tag a C01 finding refers to
    return "wrong-result" + ("|" + ",".join(sorted(tags)) if tags else "")


def worker(arg):
    seed, souffle = arg
    rng = random.Random(seed)
    prog = progen.generate(seed, cfg_fn(rng))
    text = dl.fmt_program(prog)
    rec = dict(seed=seed, hash=runner.prog_hash(text), features=sorted(prog.features), counts={})
    try:
        db, ev = pc.reference(prog)
    except refeval.Undefined:
        rec.update(status="skip", reason="left-defined-domain")
        return rec
    except refeval.RefError as e:
        rec.update(status="error", detail="reference evaluator: %s\n%s" % (e, text))
        return rec
    d = runner.case_dir("C01", seed)
    runner.write_case(d, prog, text=text)
    rec["dir"] = d
    run = runner.run_souffle(souffle, d, timeout=180)
    ck = runner.crash_key(run)
    viols = []
    if ck == "timeout":
        run = runner.run_souffle(souffle, d, timeout=900)
        ck = runner.crash_key(run)
    if ck is not None:
        viols.append(("crash:" + ck, "interpreter died on a valid program (%s)\n%s\n%s" % (ck, run.err[-3000:], text)))
    elif run.rc != 0:
        rec.update(status="skip", reason="rejected-by-souffle", detail=run.err[-800:])
        rec["counts"]["rejected"] = 1
        return rec
    else:
        outs, problems = runner.read_outputs(d, prog)
        for p in problems:
            viols.append(("output:" + p.split(" ")[0], p + "\n" + text))
        diffs = runner.diff_outputs(prog, outs, db, ("souffle", "model"))
        if diffs:
            viols.append((wrong_key(prog, diffs), "interpreter output differs from the stratified least model:\n  " + "\n  ".join(diffs) + "\n" + text))
    empties = sum(1 for r in prog.rels if r.name.startswith("r") and not db[r.name])
    rec["counts"]["derived_relations_empty"] = empties
    rec["counts"]["derived_tuples"] = sum(len(db[r.name]) for r in prog.rels if not r.name.startswith("e"))
    rec["counts"]["recursive_strata_rounds"] = sum(v for v in ev.rounds.values() if v > 1)
    rec["nontrivial"] = pc.nontrivial_c01(prog, db)
    if viols:
        rec.update(status="viol", viols=viols, program=text)
    else:
        rec.update(status="ok", sample=pc.sample_of(prog, text) if seed % 50 == 0 else None)
    return rec


def check(tier, seed):
    t = pc.trees("plain", "san")
    n = 1600 if tier == "quick" else 12000
    nsan = 96 if tier == "quick" else 600
    res = Result("exploration")
    res.rule = RULE + " Most cases run on the -O1 tree with assertions (+_GLIBCXX_ASSERTIONS), a subset on the ASan+UBSan tree."
    base = seed * 1000000
    recs = runner.pmap(worker, [(base + i, t["plain"]) for i in range(n)] + [(base + n + i, t["san"]) for i in range(nsan)])
    pc.collect("C01", recs, res)
    res.extra["cases_plain_tree"] = n
    res.extra["cases_san_tree"] = nsan
    res.min_nontrivial = n // 4
    res.assumptions = ["the reference evaluator's value semantics (written from the documentation) are right",
                       "programs are samples from the generator's distribution; constructs it does not emit are not covered"]
    return res


def reduce_outcome(p, souffle, D):
    """tools/reduce.py: violation key of program p (None = agrees with the model)"""
    try:
        db, ev = pc.reference(p)
    except Exception:
        return None
    t = dl.fmt_program(p)
    runner.write_case(D, p, text=t)
    run = runner.run_souffle(souffle, D, timeout=60)
    ck = runner.crash_key(run)
    if ck is not None:
        return "crash:" + ck
    if run.rc != 0:
        return None
    outs, pr = runner.read_outputs(D, p)
    if pr:
        return "output"
    dd = runner.diff_outputs(p, outs, db)
    if dd:
        return wrong_key(p, dd)
    return None
