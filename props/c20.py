"""C20 Profiling is transparent and reports true relation sizes."""
import os, random, re
from vlib import runner, build
from vlib.core import Result
from . import progcommon as pc, diffcommon as dc
from gen import dl

RULE = ("case = one generated C01-fragment program with every relation output, run by the real interpreter without profiling "
        "(baseline) and with -p <log> at -j1, with -p --profile-frequency, and with -p at -j4 / -j8; oracle = (1) every output CSV "
        "equal as a set to the baseline output, no abort; (2) for every relation without eqrel storage that the profile lists, "
        "the TUPLES cell of `souffleprof <log> -c rel` equals the number of tuples in that relation's output file (cells "
        "abbreviated with K/M are skipped; relations the optimiser removed do not appear and are not compared). non-trivial = "
        "distinct program with derived tuples for which at least one non-empty relation's count was compared.")

PROF = [None]


def cfg_fn(rng):
    cfg = dc.base_cfg(rng)
    cfg["sinks_only"] = False
    cfg["p_eqrel"] = 0.2
    return cfg


def parse_rel_table(text):
    """-> dict name -> TUPLES cell (string)"""
    out = {}
    for l in text.split("\n"):
        f = l.split()
        if len(f) >= 11 and re.fullmatch(r"R\d+", f[9]):
            out[f[10]] = f[6]
    return out


def post(v, r, d, od, outs, rec):
    log = os.path.join(d, v["log"])
    if not os.path.exists(log):
        return [("profile-missing", "no profile log was written")]
    pr = runner.run_cmd([PROF[0], log, "-c", "rel"], d, timeout=120)
    if pr.rc != 0 or runner.crash_key(pr) is not None:
        return [("souffleprof-failed", "souffleprof exited with %s\n%s" % (pr.rc, (pr.err or pr.out)[-1500:]))]
    table = parse_rel_table(pr.out)
    bad = []
    for name, rows in sorted(outs.items()):
        if name not in table or name in v["eqrels"]:
            continue
        cell = table[name]
        if not cell.isdigit():
            rec["counts"]["size_cells_abbreviated"] = rec["counts"].get("size_cells_abbreviated", 0) + 1
            continue
        rec["counts"]["size_cells_compared"] = rec["counts"].get("size_cells_compared", 0) + 1
        if rows:
            rec["counts"]["size_cells_compared_nonempty"] = rec["counts"].get("size_cells_compared_nonempty", 0) + 1
        if int(cell) != len(rows):
            bad.append("%s: profile says %s tuples, the relation holds %d" % (name, cell, len(rows)))
    if bad:
        return [("wrong-size", "profile tuple counts differ from the final relation sizes:\n  " + "\n  ".join(bad[:8]))]
    return []


def variants(prog, text, rng, d):
    eq = {r.name for r in prog.rels if "eqrel" in r.quals}
    out = []
    for i, extra in enumerate([["-j1"], ["--profile-frequency"], ["-j%d" % rng.choice([2, 4, 8])]]):
        log = "prof%d.log" % i
        out.append(dict(name="-p " + " ".join(extra), cls="profile" + ("-freq" if "--profile-frequency" in extra else ""),
                        args=["-p", log] + extra, log=log, eqrels=eq, post=post))
    return out


def probe(v, run, d, od):
    return True


def worker(arg):
    seed, souffle = arg
    PROF[0] = os.path.join(os.path.dirname(souffle), "souffleprof")
    rec = dc.run_case("C20", seed, souffle, variants, cfg_fn=cfg_fn, probe=probe)
    if rec.get("nontrivial") and not rec.get("counts", {}).get("size_cells_compared_nonempty"):
        rec["nontrivial"] = False
    return rec


def check(tier, seed):
    t = pc.trees("plain", "san")
    n = 200 if tier == "quick" else 800
    nsan = 10 if tier == "quick" else 40
    res = Result("exploration")
    res.rule = RULE
    base = seed * 1000000 + (0 if tier == "quick" else 50000) + 200000
    recs = runner.pmap(worker, [(base + i, t["plain"]) for i in range(n)] + [(base + n + i, t["san"]) for i in range(nsan)])
    dc.finish("C20", recs, res, n)
    res.assumptions = ["interpreter only", "sizes are read from souffleprof's relation table; relations >= 1000 tuples (abbreviated cells) are not compared",
                       "programs are samples of the generator's distribution"]
    return res
