"""helpers for template-driven checks (programs written as text with a Python oracle)"""
import os
from vlib import runner


def setup_case(prop, seed, text, facts=None, name="p.dl"):
    d = runner.case_dir(prop, seed)
    with open(os.path.join(d, name), "w") as f:
        f.write(text)
    for rel, rows in (facts or {}).items():
        with open(os.path.join(d, rel + ".facts"), "w") as f:
            f.write("".join("\t".join(str(x) for x in r) + "\n" for r in rows))
    return d


def read_rows(d, rel, outdir=".", ints=True):
    """-> list of tuples (ints if ints else strings), or None if the file is missing"""
    try:
        with open(os.path.join(d, outdir, rel + ".csv"), errors="surrogateescape") as f:
            lines = f.read().split("\n")
    except OSError:
        return None
    if lines and lines[-1] == "":
        lines = lines[:-1]
    rows = []
    for l in lines:
        parts = l.split("\t")
        rows.append(tuple(int(x) for x in parts) if ints else tuple(parts))
    return rows


def sched_env(rng, d, tag):
    s = rng.randrange(1, 1 << 30)
    inv = rng.choice([2, 8, 64])
    return {"SOUFFLE_VERIF_SCHED": "%d:%d" % (s, inv), "SOUFFLE_VERIF_SCHED_LOG": os.path.join(d, "sched.%s.log" % tag)}


def run(souffle, d, args=(), env=None, outdir=".", timeout=180, prog="p.dl"):
    r = runner.run_souffle(souffle, d, args=list(args), env_extra=env, timeout=timeout, outdir=outdir, prog=prog)
    ck = runner.crash_key(r)
    if ck == "timeout":
        r = runner.run_souffle(souffle, d, args=list(args), env_extra=env, timeout=timeout * 6, outdir=outdir, prog=prog)
        ck = runner.crash_key(r)
    return r, ck
