"""helpers for template-driven checks (programs written as text with a Python oracle)"""
import os
from vlib import runner


def setup_case(prop, seed, text, facts=None, name="p.dl"):
    d = runner.case_dir(prop, seed)
    with open(os.path.join(d, name), "w") as f:
        f.write(text)
    for rel, rows in (facts or {}).items():
        with open(os.path.join(d, rel + ".facts"), "w") as f:
            f.write("".join("\t".join(str(x) for x in r) + "\n" for r in rows))
    return d


def read_rows(d, rel, outdir=".", ints=True):
    """-> list of tuples (ints if ints else strings), or None if the file is missing"""
    try:
        with open(os.path.join(d, outdir, rel + ".csv"), errors="surrogateescape") as f:
            lines = f.read().split("\n")
    except OSError:
        return None
    if lines and lines[-1] == "":
        lines = lines[:-1]
    rows = []
    for l in lines:
        parts = l.split("\t")
        rows.append(tuple(int(x) for x in parts) if ints else tuple(parts))
    return rows


def sched_env(rng, d, tag):
    s = rng.randrange(1, 1 << 30)
    inv = rng.choice([2, 8, 64])
    return {"SOUFFLE_VERIF_SCHED": "%d:%d" % (s, inv), "SOUFFLE_VERIF_SCHED_LOG": os.path.join(d, "sched.%s.log" % tag)}


def run(souffle, d, args=(), env=None, outdir=".", timeout=180, prog="p.dl"):
    r = runner.run_souffle(souffle, d, args=list(args), env_extra=env, timeout=timeout, outdir=outdir, prog=prog)
    ck = runner.crash_key(r)
    if ck == "timeout":
        r = runner.run_souffle(souffle, d, args=list(args), env_extra=env, timeout=timeout * 6, outdir=outdir, prog=prog)
        ck = runner.crash_key(r)
    return r, ck


def make_runner(souffle, d, compiled_mode, extra_args=()):
    """-> function (j, outdir, env) -> (Run, crash key); in compiled mode the program is turned into an executable once (`souffle -o`, generated
    with -j4 so that parallel loops exist) and that executable is run; returns None if the build fails"""
    if not compiled_mode:
        return lambda j, od, env=None: run(souffle, d, args=["-j%d" % j] + list(extra_args), env=env, outdir=od)
    from . import compiled
    r, ck = compiled.build_exe(souffle, d, jobs=4, extra=extra_args)
    if ck is not None or r.rc != 0:
        return None
    return lambda j, od, env=None: compiled.run_exe(d, outdir=od, jobs=j, env=env)
