"""helpers for checks that exercise generated C++ (compile-bound: few cases, all cores)"""
import os
from vlib import runner


def build_exe(souffle, d, prog="p.dl", exe="prog_exe", jobs=None, extra=(), timeout=900):
    """souffle -o <exe>: generate single-file C++ and compile it (no run). -> (Run, crash key or None)"""
    args = ["-o", exe] + (["-j%s" % jobs] if jobs else []) + list(extra)
    r = runner.run_souffle(souffle, d, args=args, timeout=timeout, prog=prog)
    return r, runner.crash_key(r)


def run_exe(d, exe="prog_exe", outdir="cout", jobs=None, env=None, timeout=180):
    os.makedirs(os.path.join(d, outdir), exist_ok=True)
    cmd = [os.path.join(d, exe), "-F.", "-D" + outdir] + (["-j%s" % jobs] if jobs else [])
    r = runner.run_cmd(cmd, d, env_extra=env, timeout=timeout)
    ck = runner.crash_key(r)
    if ck == "timeout":
        r = runner.run_cmd(cmd, d, env_extra=env, timeout=timeout * 6)
        ck = runner.crash_key(r)
    return r, ck


def compile_many_and_run(souffle, d, prog="p.dl", outdir="cmany", jobs=None, timeout=1200):
    """souffle -C: multi-file code generation, compile, run"""
    os.makedirs(os.path.join(d, outdir), exist_ok=True)
    args = ["-C"] + (["-j%s" % jobs] if jobs else [])
    r = runner.run_souffle(souffle, d, args=args, timeout=timeout, prog=prog, outdir=outdir)
    return r, runner.crash_key(r)
