"""C06 RAM-level optimisations preserve results."""
import os, random, re
from vlib import runner
from vlib.core import Result
from . import progcommon as pc, diffcommon as dc

SKIPPABLE = ["ExpandFilterTransformer", "HoistConditionsTransformer", "MakeIndexTransformer", "IfConversionTransformer",
             "IfExistsConversionTransformer", "CollapseFiltersTransformer", "TupleIdTransformer", "HoistAggregateTransformer",
             "EliminateDuplicatesTransformer", "ReorderConditionsTransformer", "ReorderFilterBreak", "ParallelTransformer"]

RULE = ("case = one generated C01-fragment program run by the real interpreter (-j4, so that ParallelTransformer has work) with the "
        "full RAM transformer sequence (baseline) and with one RAM transformer, or a random subset, skipped through the guarded "
        "hook SOUFFLE_VERIF_SKIP_RAM (12 skippable passes: " + ", ".join(SKIPPABLE) + "); oracle = every output CSV equal as a set "
        "to the baseline output, no abort. Each case runs every single skip plus two random subsets. non-trivial = distinct "
        "program with derived tuples where the transformed RAM (--show=transformed-ram) differs from the baseline's for at "
        "least one skip (the skipped pass did something).")

SOUFFLE = [None]
BASELINE_ARGS = ["-j4"]


def cfg_fn(rng):
    cfg = dc.base_cfg(rng)
    if rng.random() < 0.5:
        cfg["p_constraint"] = 0.8
    if rng.random() < 0.3:
        cfg["body_atoms"] = (2, 4)
    return cfg


def variants(prog, text, rng, d):
    out = []
    for n in SKIPPABLE:
        out.append(dict(name="skip " + n, cls="skip=" + n, args=["-j4"], env={"SOUFFLE_VERIF_SKIP_RAM": n}))
    for i in range(2):
        sub = sorted(rng.sample(SKIPPABLE, rng.randint(2, 5)))
        out.append(dict(name="skip " + ",".join(sub), cls="skip-subset" + "".join("+" + x.replace("Transformer", "") for x in sub if x in ("TupleIdTransformer", "HoistConditionsTransformer")),
                        args=["-j4"], env={"SOUFFLE_VERIF_SKIP_RAM": ",".join(sub)}))
    return out


BASE_RAM = {}


def probe(v, run, d, od):
    if d not in BASE_RAM:
        BASE_RAM.clear()
        r0 = runner.run_souffle(SOUFFLE[0], d, args=["-j4", "--show=transformed-ram"], timeout=120, outdir="base")
        BASE_RAM[d] = r0.out
    r = runner.run_souffle(SOUFFLE[0], d, args=["-j4", "--show=transformed-ram"], env_extra=v.get("env"), timeout=120, outdir="base")
    return r.out != BASE_RAM[d]


def worker(arg):
    seed, souffle = arg
    SOUFFLE[0] = souffle
    return dc.run_case("C06", seed, souffle, variants, cfg_fn=cfg_fn, probe=probe, baseline_args=["-j4"])


def check(tier, seed):
    t = pc.trees("plain", "san")
    n = 160 if tier == "quick" else 960
    nsan = 16 if tier == "quick" else 96
    res = Result("exploration")
    res.rule = RULE
    base = seed * 1000000 + (0 if tier == "quick" else 50000) + 600000
    recs = runner.pmap(worker, [(base + i, t["plain"]) for i in range(n)] + [(base + n + i, t["san"]) for i in range(nsan)])
    dc.finish("C06", recs, res, n)
    res.assumptions = ["interpreter only; compiled code is not exercised by this check",
                       "programs are samples of the generator's distribution"]
    return res
