"""C06 RAM-level optimisations preserve results."""
import os, random, re
from vlib import runner
from vlib.core import Result
from . import progcommon as pc, diffcommon as dc

SKIPPABLE = ["ExpandFilterTransformer", "HoistConditionsTransformer", "MakeIndexTransformer", "IfConversionTransformer",
             "IfExistsConversionTransformer", "CollapseFiltersTransformer", "TupleIdTransformer", "HoistAggregateTransformer",
             "EliminateDuplicatesTransformer", "ReorderConditionsTransformer", "ReorderFilterBreak", "ParallelTransformer"]

RULE = ("case = one generated C01-fragment program run by the real interpreter (-j4, so that ParallelTransformer has work) with the "
        "full RAM transformer sequence (baseline) and with one RAM transformer, or a random subset, skipped through the guarded "
        "hook SOUFFLE_VERIF_SKIP_RAM (12 skippable passes: " + ", ".join(SKIPPABLE) + "); oracle = every output CSV equal as a set "
        "to the baseline output, no abort. Each case runs every single skip plus two random subsets. non-trivial = distinct "
        "program with derived tuples where the transformed RAM (--show=transformed-ram) differs from the baseline's for at "
        "least one skip (the skipped pass did something).")

SOUFFLE = [None]
BASELINE_ARGS = ["-j4"]


def cfg_fn(rng):
    cfg = dc.base_cfg(rng)
    if rng.random() < 0.5:
        cfg["p_constraint"] = 0.8
    if rng.random() < 0.3:
        cfg["body_atoms"] = (2, 4)
    return cfg


def variants(prog, text, rng, d):
    out = []
    for n in SKIPPABLE:
        out.append(dict(name="skip " + n, cls="skip=" + n, args=["-j4"], env={"SOUFFLE_VERIF_SKIP_RAM": n}))
    for i in range(2):
        sub = sorted(rng.sample(SKIPPABLE, rng.randint(2, 5)))
        out.append(dict(name="skip " + ",".join(sub), cls="skip-subset" + "".join("+" + x.replace("Transformer", "") for x in sub if x in ("TupleIdTransformer", "HoistConditionsTransformer")),
                        args=["-j4"], env={"SOUFFLE_VERIF_SKIP_RAM": ",".join(sub)}))
    return out


BASE_RAM = {}


def probe(v, run, d, od):
    if d not in BASE_RAM:
        BASE_RAM.clear()
        r0 = runner.run_souffle(SOUFFLE[0], d, args=["-j4", "--show=transformed-ram"], timeout=120, outdir="base")
        BASE_RAM[d] = r0.out
    r = runner.run_souffle(SOUFFLE[0], d, args=["-j4", "--show=transformed-ram"], env_extra=v.get("env"), timeout=120, outdir="base")
    return r.out != BASE_RAM[d]


def worker(arg):
    seed, souffle = arg
    SOUFFLE[0] = souffle
    return dc.run_case("C06", seed, souffle, variants, cfg_fn=cfg_fn, probe=probe, baseline_args=["-j4"])


COMPILED_SKIPS = [x for x in SKIPPABLE if x not in ("TupleIdTransformer", "HoistConditionsTransformer")]


def compiled_worker(arg):
    """the same property for generated code: `souffle -o` with the full RAM pipeline and with one pass skipped (the skip acts when
    the code is generated), both executables run at -j4"""
    seed, souffle = arg
    from . import compiled
    from gen import progen, dl
    rng = random.Random(seed)
    prog = progen.generate(seed, cfg_fn(rng))
    text = dl.fmt_program(prog)
    rec = dict(seed=seed, hash=runner.prog_hash(text), features=sorted(prog.features) + ["compiled"], counts={})
    d = runner.case_dir("C06", seed)
    rec["dir"] = d
    runner.write_case(d, prog, text=text)
    r, ck = compiled.build_exe(souffle, d, exe="exe_full", jobs=4)
    if ck is not None or r.rc != 0:
        rec.update(status="skip", reason="compile-failed (C02)")
        return rec
    rb, ck = compiled.run_exe(d, exe="exe_full", outdir="cfull", jobs=4)
    base, problems = runner.read_outputs(d, prog, outdir="cfull") if (ck is None and rb.rc == 0) else ({}, ["x"])
    if problems:
        rec.update(status="skip", reason="compiled-baseline-failed (C02)")
        return rec
    skip = rng.choice(COMPILED_SKIPS)
    viols = []
    tags = dc.shape_tags(prog)
    T = ("|" + ",".join(tags)) if tags else ""
    r = runner.run_souffle(souffle, d, args=["-o", "exe_skip", "-j4"], env_extra={"SOUFFLE_VERIF_SKIP_RAM": skip}, timeout=900)
    ck = runner.crash_key(r)
    rec["counts"]["compiles"] = 2
    if ck is not None:
        viols.append(("compiled-skip=%s:crash:%s%s" % (skip, ck, T), "souffle -o with %s skipped died (%s)\n%s\n%s" % (skip, ck, r.err[-2000:], text)))
    elif r.rc != 0:
        viols.append(("compiled-skip=%s:compile-error%s" % (skip, T), "code generated with %s skipped does not compile\n%s\n%s" % (skip, r.err[-1500:], text)))
    else:
        rr, ck = compiled.run_exe(d, exe="exe_skip", outdir="cskip", jobs=4)
        if ck is not None:
            viols.append(("compiled-skip=%s:crash:%s%s" % (skip, ck, T), "the executable generated with %s skipped died (%s)\n%s\n%s" % (skip, ck, rr.err[-2000:], text)))
        elif rr.rc != 0:
            viols.append(("compiled-skip=%s:error-exit%s" % (skip, T), "the executable generated with %s skipped exited with %s\n%s" % (skip, rr.rc, text)))
        else:
            outs, problems = runner.read_outputs(d, prog, outdir="cskip")
            for pb in problems:
                viols.append(("compiled-skip=%s:output:%s%s" % (skip, pb.split(" ")[0], T), pb + "\n" + text))
            diffs = runner.diff_outputs(prog, outs, base, ("skip " + skip, "full pipeline"))
            if diffs:
                viols.append(("compiled-skip=%s:wrong-result%s" % (skip, T), "compiled outputs change when %s is skipped:\n  %s\n%s" % (skip, "\n  ".join(diffs), text)))
            rec["counts"]["effective:compiled-skip=" + skip] = 1
            rec["nontrivial"] = any(len(v) for k, v in base.items() if not k.startswith("e"))
    if viols:
        rec.update(status="viol", viols=viols[:3], program=text)
    else:
        rec.update(status="ok", sample=None)
    return rec


def any_worker(arg):
    kind, seed, souffle = arg
    return compiled_worker((seed, souffle)) if kind == "compiled" else worker((seed, souffle))


def check(tier, seed):
    t = pc.trees("plain", "san")
    n = 160 if tier == "quick" else 640
    nsan = 16 if tier == "quick" else 64
    res = Result("exploration")
    res.rule = RULE
    base = seed * 1000000 + (0 if tier == "quick" else 50000) + 600000
    ncomp = 6 if tier == "quick" else 24
    jobs = [("compiled", base + 900000 + i, t["plain"]) for i in range(ncomp)]
    jobs += [("interp", base + i, t["plain"]) for i in range(n)] + [("interp", base + n + i, t["san"]) for i in range(nsan)]
    recs = runner.pmap(any_worker, jobs)
    dc.finish("C06", recs, res, n)
    res.assumptions = ["compiled code: a compile-bound sample (6 quick / 72 thorough programs, one random pass skipped each; TupleId and HoistConditions skips are left to the interpreter part, where they are recorded findings)",
                       "programs are samples of the generator's distribution"]
    return res
