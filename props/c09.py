"""C09 Semi-naive evaluation is complete and non-redundant."""
import os, random, re
from vlib import runner
from vlib.core import Result
from . import progcommon as pc, diffcommon as dc, c23
from gen import dl, progen, refeval

RULE = ("case = one generated program with recursive strata (1-3 mutually recursive relations, 1-4 recursive atoms per rule, linear "
        "and non-linear, negation / constraints / functors / records over lower strata; no aggregates, disjunction, multiple "
        "heads, eqrel). Every recursive relation R gets a `.decl dR = debug_delta(R)` twin, so the real interpreter reports in "
        "which iteration each tuple was first found. A Python model runs the NAIVE Jacobi iteration of the stratum (all rules on "
        "the full relations of the previous round): S_0 = facts and non-recursive rules, S_k+1 = S_k + T(S_k), D_k = S_k - S_k-1. "
        "oracle (a) delta trace: with the optimisations off the reported (tuple, iteration) pairs are exactly {(t, k) : t in D_k} - "
        "every naive tuple is found, in the round the naive computation finds it, no tuple is reported twice, and the loop stops in "
        "the round in which the naive computation reaches its fixpoint; in the default pipeline (auxiliary relations may delay a "
        "tuple, a dropped tautological clause may split the stratum and bring it forward) every naive tuple is found exactly once. oracle (b) derivation "
        "counts (guarded hook SOUFFLE_VERIF_DERIV_LOG counting evaluations of the head insert per target relation and "
        "iteration; AST optimisations and the If / IfExists conversions off): in iteration k the rule versions of R together reach the "
        "head exactly N(S_k) - N(S_k - D_k) times, N(X) = number of body-tuple combinations over X whose head is not yet known - "
        "i.e. every combination with at least one new tuple is considered once, by one version, in one iteration. "
        "non-trivial = distinct program with a recursive stratum that needs >= 2 iterations.")

DISABLE = ["MinimiseProgramTransformer", "RemoveRelationCopiesTransformer", "RemoveEmptyRelationsTransformer",
           "RemoveRedundantRelationsTransformer", "ReduceExistentialsTransformer", "ReplaceSingletonVariablesTransformer",
           "PartitionBodyLiteralsTransformer", "SimplifyConstantBinaryConstraintsTransformer", "RemoveRedundantSumsTransformer"]


def cfg_fn(rng):
    return dict(p_recursive=1.0, p_aggregate=0.0, p_head_aggr=0.0, p_disj=0.0, p_multihead=0.0, p_eqrel=0.0, p_range=0.0,
                p_unnamed=0.0, body_atoms=(1, 4), p_rec_atom=rng.choice([0.3, 0.6, 0.9]), rules_per_rel=(2, 4), p_negation=0.3, rec_guard=rng.choice([12, 25, 40]),
                n_idb=(2, 5), max_facts=rng.choice([6, 12, 18]), p_nullary=0.0)


def naive_trace(prog, ev, comp):
    """-> (S list of dict rel->set per round, recursive clauses, base clauses) for one recursive component"""
    compset = set(comp)
    rec_clauses, base_clauses = [], []
    for c in prog.clauses:
        if c.subsume or len(c.heads) != 1 or c.heads[0].rel not in compset:
            continue
        if any(isinstance(l, dl.Atom) and l.rel in compset for l in c.body):
            rec_clauses.append(c)
        else:
            base_clauses.append(c)
    final = {rn: set(ev.db[rn]) for rn in comp}

    def setdb(S):
        for rn in comp:
            ev.db[rn] = set(S[rn])
        ev.idx_cache = {}

    S0 = {rn: set(tuple(f) for f in ev.rels[rn].facts) for rn in comp}
    setdb({rn: set() for rn in comp})
    for c in base_clauses:
        for (rn, t) in ev.consequences(c):
            if rn in compset:
                S0[rn].add(t)
    S = [S0]
    while True:
        cur = S[-1]
        setdb(cur)
        nxt = {rn: set(cur[rn]) for rn in comp}
        for c in rec_clauses:
            for (rn, t) in ev.consequences(c):
                if rn in compset:
                    nxt[rn].add(t)
        if all(nxt[rn] == cur[rn] for rn in comp):
            break
        S.append(nxt)
        if len(S) > 400:
            raise refeval.RefError("naive iteration does not converge")
    setdb(final)
    return S, rec_clauses, base_clauses, final


def count_reaching_head(ev, comp, X, known, clauses_of):
    """rel -> number of body combinations over X (component relations) whose head tuple is not in `known`"""
    for rn in comp:
        ev.db[rn] = set(X[rn])
    ev.idx_cache = {}
    out = {}
    for rn in comp:
        n = 0
        for c in clauses_of.get(rn, []):
            for env in ev.solve(list(c.body), {}):
                try:
                    t = tuple(ev.ev(a, env) for a in c.heads[0].args)
                except refeval.NoValue:
                    continue
                if t not in known[rn]:
                    n += 1
        out[rn] = n
    return out


def worker(arg):
    seed, souffle = arg
    rng = random.Random(seed)
    prog = progen.generate(seed, cfg_fn(rng))
    if rng.random() < 0.6:
        # a closure over a long chain: many iterations; "triple" / "quad-mutual" have three recursive atoms (delta versions 0-2)
        c23.add_chain(prog, rng, shapes=["linear", "nonlinear", "mutual", "triple", "triple", "quad-mutual"])
    text0 = dl.fmt_program(prog)
    rec = dict(seed=seed, hash=runner.prog_hash(text0), features=sorted(prog.features), counts={})
    try:
        db, ev = pc.reference(prog)
    except refeval.Undefined:
        rec.update(status="skip", reason="left-defined-domain")
        return rec
    except refeval.RefError as e:
        rec.update(status="error", detail="reference evaluator: %s\n%s" % (e, text0))
        return rec
    comps = []
    for comp in ev.sccs:
        cs = set(comp)
        if any(any(isinstance(l, dl.Atom) and l.rel in cs for l in c.body) for c in prog.clauses if len(c.heads) == 1 and c.heads[0].rel in cs):
            comps.append(list(comp))
    if not comps:
        rec.update(status="skip", reason="no-recursive-stratum")
        return rec
    traces = {}
    try:
        for comp in comps:
            traces[tuple(comp)] = naive_trace(prog, ev, comp)
    except (refeval.Undefined, refeval.RefError) as e:
        rec.update(status="skip", reason="model-trace-failed")
        return rec
    recrels = [rn for comp in comps for rn in comp]
    twins = "".join(".decl d_%s = debug_delta(%s)\n.output d_%s\n" % (rn, rn, rn) for rn in recrels)
    text = text0 + twins
    d = runner.case_dir("C09", seed)
    rec["dir"] = d
    runner.write_case(d, prog, text=text)
    viols = []
    tags = dc.shape_tags(prog)
    maxrounds = max(len(tr[0]) for tr in traces.values())
    for cname, args, env, with_counts in (("default", [], {}, False),
                                          ("opts-off", ["--disable-transformers=" + ",".join(DISABLE)],
                                           {"SOUFFLE_VERIF_SKIP_RAM": "IfExistsConversionTransformer,IfConversionTransformer", "SOUFFLE_VERIF_DERIV_LOG": os.path.join(d, "deriv.log")}, True)):
        od = "out-" + cname
        r = runner.run_souffle(souffle, d, args=args + ["-j1"], env_extra=env, outdir=od, timeout=180)
        ck = runner.crash_key(r)
        K = lambda k: "%s%s" % (k, "" if cname == "default" else "@opts-off")
        if ck is not None:
            viols.append((K("crash:" + ck), "souffle died (%s) [%s]\n%s\n%s" % (ck, cname, r.err[-2000:], text)))
            continue
        if r.rc != 0:
            errs = [l for l in r.err.split("\n") if l.startswith("Error")][:3]
            viols.append((K("error-exit"), "program with debug_delta twins rejected [%s]: %s\n%s" % (cname, errs, text)))
            continue
        for comp in comps:
            S, rec_clauses, base_clauses, final = traces[tuple(comp)]
            for rn in comp:
                rel = ev.rels[rn]
                try:
                    with open(os.path.join(d, od, "d_%s.csv" % rn), errors="surrogateescape") as f:
                        rows = dl.parse_output(f.read(), list(rel.attrs) + [("iteration", dl.UNSIGNED)])
                except (OSError, dl.ParseError) as e:
                    viols.append((K("delta-output-unreadable"), "d_%s.csv: %s\n%s" % (rn, e, text)))
                    continue
                got = {}
                for row in rows:
                    got.setdefault(tuple(row[:-1]), []).append(row[-1])
                want = {}
                for k in range(len(S)):
                    prev = S[k - 1][rn] if k > 0 else set()
                    for t in S[k][rn] - prev:
                        want[t] = k
                redisc = [t for t, its in got.items() if len(its) > 1]
                if redisc:
                    viols.append((K("tuple-found-in-two-iterations"), "%s: tuple %s is reported for iterations %s (a tuple must be new only once)\n%s" % (rn, redisc[0], got[redisc[0]], text)))
                missing = sorted(set(want) - set(got), key=repr)
                extra = sorted(set(got) - set(want), key=repr)
                if missing:
                    viols.append((K("incomplete"), "%s: tuples of the naive fixpoint never found: %s\n%s" % (rn, missing[:4], text)))
                if extra:
                    viols.append((K("unsound"), "%s: tuples found that the naive fixpoint does not contain: %s\n%s" % (rn, extra[:4], text)))
                # with the optimisations off the rounds coincide exactly; the default pipeline may route a rule through an auxiliary
                # relation of the same stratum (body partitioning, existential reduction), which can only delay a tuple
                # with the optimisations off the rounds coincide exactly. The default pipeline may route a rule through an auxiliary
                # relation of the same stratum (later) or drop a tautological clause and thereby split the stratum (earlier), so there
                # only "every naive tuple exactly once" is demanded
                wrong = [(t, got[t][0], want[t]) for t in want if t in got and got[t][0] != want[t]] if with_counts else []
                if wrong:
                    viols.append((K("wrong-iteration"), "%s: tuple %s first found in iteration %d, the naive computation finds it in round %d\n%s" % (
                        rn, wrong[0][0], wrong[0][1], wrong[0][2], text)))
                rec["counts"]["delta_tuples_checked"] = rec["counts"].get("delta_tuples_checked", 0) + len(want)
        if with_counts:
            obs = {}
            try:
                with open(os.path.join(d, "deriv.log")) as f:
                    for line in f:
                        p = line.rstrip("\n").split("\t")
                        if len(p) == 3:
                            obs[(p[0], int(p[1]))] = int(p[2])
            except OSError:
                pass            # no insert operation was evaluated at all: every count is zero
            for comp in comps:
                S, rec_clauses, base_clauses, final = traces[tuple(comp)]
                clauses_of = {}
                for c in rec_clauses:
                    clauses_of.setdefault(c.heads[0].rel, []).append(c)
                ev.steps = 0           # a fresh work budget for the counting phase
                try:
                    for k in range(len(S)):
                        # souffle's loop iteration k works on state S_k with delta D_k (the loop also runs once on the final state)
                        Sk = S[k]
                        Dk = {rn: Sk[rn] - (S[k - 1][rn] if k > 0 else set()) for rn in comp}
                        full = count_reaching_head(ev, comp, Sk, Sk, clauses_of)
                        old = count_reaching_head(ev, comp, {rn: Sk[rn] - Dk[rn] for rn in comp}, Sk, clauses_of)
                        for rn in comp:
                            expected = full[rn] - old[rn]
                            name = ("@new_" if k % 2 == 0 else "@delta_") + rn
                            seen = obs.get((name, k), 0)
                            rec["counts"]["derivation_counts_compared"] = rec["counts"].get("derivation_counts_compared", 0) + 1
                            if seen != expected:
                                viols.append((K("derivation-count:" + ("too-many" if seen > expected else "too-few")),
                                              "%s, iteration %d: the rule versions reached the head %d times; there are %d body combinations with at least one new tuple and an unknown head\n%s" % (
                                                  rn, k, seen, expected, text)))
                except refeval.Undefined:
                    # the model's work budget is exhausted: the counts of this stratum are not compared
                    rec["counts"]["strata_too_expensive_to_count"] = rec["counts"].get("strata_too_expensive_to_count", 0) + 1
                finally:
                    for rn in comp:
                        ev.db[rn] = set(final[rn])
                    ev.idx_cache = {}
    rec["nontrivial"] = maxrounds >= 3
    rec["counts"]["max_naive_rounds"] = maxrounds
    if viols:
        seen, uniq = set(), []
        for k, dtl in viols:
            if k not in seen:
                seen.add(k)
                uniq.append((k + ("|" + ",".join(tags) if tags else ""), dtl))
        rec.update(status="viol", viols=uniq[:4], program=text)
    else:
        rec.update(status="ok", sample=pc.sample_of(prog, text) if seed % 50 == 0 else None)
    return rec


def check(tier, seed):
    t = pc.trees("plain", "san")
    n = 400 if tier == "quick" else 1600
    nsan = 24 if tier == "quick" else 96
    res = Result("exploration")
    res.rule = RULE
    base = seed * 1000000 + (0 if tier == "quick" else 50000) + 90000
    recs = runner.pmap(worker, [(base + i, t["plain"]) for i in range(n)] + [(base + n + i, t["san"]) for i in range(nsan)])
    pc.collect("C09", recs, res)
    res.min_nontrivial = n // 10
    res.assumptions = ["interpreter only, -j1", "derivation counts are observed through the guarded hook at the insert operation (per target relation and iteration, all versions together)",
                       "the model's value semantics are right"]
    return res
