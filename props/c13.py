"""C13 Static checks reject exactly the ill-formed programs."""
import copy, os, random, re
from vlib import runner
from vlib.core import Result
from . import progcommon as pc, diffcommon as dc
from gen import dl, progen

RULE = ("case = one generated program, valid by construction (typed, grounded, stratified), and one or two mutants of it with "
        "exactly one injected defect: a negated atom or an aggregate over a relation that (transitively) depends on the "
        "clause's own head (cycles through 1-5 relations), an ungrounded variable in the head / in a negated atom / in a "
        "constraint / as a functor operand, a type clash (symbol constant in a numeric column or vice versa, numeric "
        "variable compared with a string, numeric variable as operand of cat, variable used at two incompatible column "
        "types). oracle = the valid program is accepted (exit 0); every mutant ends with exit status 1, at least one "
        "'Error' diagnostic, no abort, and writes no output file. non-trivial = distinct valid program for which at least "
        "one mutant was run.")


def cfg_fn(rng):
    cfg = dc.base_cfg(rng)
    cfg["p_eqrel"] = 0.1
    return cfg


def reach(prog):
    """rel -> set of relations it depends on (transitively)"""
    deps = {}
    for c in prog.clauses:
        for h in c.heads:
            # per head: souffle splits a clause with several heads, and an aggregate inside one head's arguments is a
            # dependency of that head only
            deps.setdefault(h.rel, set()).update(rn for rn, ctx in dl.clause_atoms(dl.Clause([h], c.body) if len(c.heads) > 1 else c))
    changed = True
    while changed:
        changed = False
        for a in list(deps):
            for b in list(deps[a]):
                for x in deps.get(b, ()):
                    if x not in deps[a]:
                        deps[a].add(x)
                        changed = True
    return deps


def typed_vars(prog, c):
    """variables bound by top-level positive body atoms as direct arguments: name -> type"""
    out = {}
    for l in c.body:
        if isinstance(l, dl.Atom):
            rel = prog.rel(l.rel)
            for a, (_, t) in zip(l.args, rel.attrs):
                if isinstance(a, dl.Var):
                    out.setdefault(a.name, t)
    return out


def mutants(prog, rng):
    """-> list of (kind, program text)"""
    out = []
    deps = reach(prog)
    rules = [i for i, c in enumerate(prog.clauses) if c.body and c.subsume is None]
    if not rules:
        return out
    kinds = ["neg-cycle", "agg-cycle", "unground-head", "unground-neg", "unground-constraint", "unground-functor",
             "type-const-in-atom", "type-compare", "type-functor", "type-two-columns"]
    rng.shuffle(kinds)
    for kind in kinds:
        if len(out) >= 2:
            break
        q = copy.deepcopy(prog)
        order = list(rules)
        rng.shuffle(order)
        done = False
        for i in order:
            c = q.clauses[i]
            head = c.heads[0]
            hrel = q.rel(head.rel)
            if kind in ("neg-cycle", "agg-cycle"):
                # a relation B that depends on the head (or the head itself): !B(_,...) / count : { B(_,...) } closes a cycle
                cands = [b for b in deps if (head.rel in deps.get(b, ()) or b == head.rel) and b != "eq" and q.rel(b).attrs]
                if not cands:
                    continue
                b = rng.choice(sorted(cands))
                at = dl.Atom(b, [dl.Unnamed() for _ in q.rel(b).attrs])
                if kind == "neg-cycle":
                    c.body.append(dl.Neg(at))
                else:
                    c.body.append(dl.Cmp("=", dl.Var("zz_cnt"), dl.Aggr("count", None, [at], "number"), "number"))
                done = True
            elif kind == "unground-head":
                if not head.args:
                    continue
                head.args[rng.randrange(len(head.args))] = dl.Var("zz_free")
                done = True
            elif kind == "unground-neg":
                cands = [r for r in q.rels if r.attrs and r.name in deps.get(head.rel, set()) and r.name != head.rel
                         and head.rel not in deps.get(r.name, set())]
                if not cands:
                    continue
                r = rng.choice(cands)
                args = [dl.Unnamed() for _ in r.attrs]
                args[rng.randrange(len(args))] = dl.Var("zz_free")
                c.body.append(dl.Neg(dl.Atom(r.name, args)))
                done = True
            elif kind == "unground-constraint":
                c.body.append(dl.Cmp(rng.choice(["<", "!=", ">="]), dl.Var("zz_free"), dl.Const(3, dl.NUMBER), "number"))
                done = True
            elif kind == "unground-functor":
                idx = [k for k, (_, t) in enumerate(hrel.attrs) if t is dl.NUMBER]
                if not idx:
                    continue
                head.args[rng.choice(idx)] = dl.Functor("+", [dl.Var("zz_free"), dl.Const(1, dl.NUMBER)], "number")
                done = True
            elif kind == "type-const-in-atom":
                cands = [(r, k) for r in q.rels for k, (_, t) in enumerate(r.attrs)
                         if t.kind in ("number", "symbol") and t.is_prim() and r.name in deps.get(head.rel, set()) and r.name != head.rel
                         and head.rel not in deps.get(r.name, set())]
                if not cands:
                    continue
                r, k = rng.choice(cands)
                args = [dl.Unnamed() for _ in r.attrs]
                t = r.attrs[k][1]
                args[k] = dl.Const("oops", dl.SYMBOL) if t.kind == "number" else dl.Const(7, dl.NUMBER)
                c.body.append(dl.Atom(r.name, args))
                done = True
            elif kind in ("type-compare", "type-functor"):
                tv = [(v, t) for v, t in typed_vars(q, c).items() if t.kind in ("number", "unsigned", "float")]
                if not tv:
                    continue
                v, t = rng.choice(sorted(tv, key=lambda x: x[0]))
                if kind == "type-compare":
                    c.body.append(dl.Cmp(rng.choice(["=", "!="]), dl.Var(v), dl.Const("oops", dl.SYMBOL), "symbol"))
                else:
                    c.body.append(dl.Cmp("=", dl.Const("oops", dl.SYMBOL), dl.Functor("cat", [dl.Var(v), dl.Const("a", dl.SYMBOL)], "symbol"), "symbol"))
                done = True
            elif kind == "type-two-columns":
                tv = [(v, t) for v, t in typed_vars(q, c).items() if t.kind == "number"]
                cands = [(r, k) for r in q.rels for k, (_, t) in enumerate(r.attrs)
                         if t.kind == "symbol" and t.is_prim() and r.name in deps.get(head.rel, set()) and r.name != head.rel
                         and head.rel not in deps.get(r.name, set())]
                if not tv or not cands:
                    continue
                v, _ = rng.choice(sorted(tv, key=lambda x: x[0]))
                r, k = rng.choice(cands)
                args = [dl.Unnamed() for _ in r.attrs]
                args[k] = dl.Var(v)
                c.body.append(dl.Atom(r.name, args))
                done = True
            if done:
                break
        if done:
            try:
                out.append((kind, dl.fmt_program(q)))
            except Exception:
                pass
    return out


def head_and_body_aggr(prog):
    """clauses with an aggregate in a head argument and another in the body that share an outer variable (a recorded finding)"""
    for c in prog.clauses:
        ha, ba = [], []
        for h in c.heads:
            dl.walk_lit_terms(h, lambda t: ha.append(t) if isinstance(t, dl.Aggr) else None)
        for l in c.body:
            dl.walk_lit_terms(l, lambda t: ba.append(t) if isinstance(t, dl.Aggr) else None)
        if ha and ba:
            return True
    return False


def worker(arg):
    seed, souffle = arg
    rng = random.Random(seed)
    prog = progen.generate(seed, cfg_fn(rng))
    text = dl.fmt_program(prog)
    rec = dict(seed=seed, hash=runner.prog_hash(text), features=sorted(prog.features), counts={})
    d = runner.case_dir("C13", seed)
    rec["dir"] = d
    runner.write_case(d, prog, text=text)
    viols = []
    r = runner.run_souffle(souffle, d, outdir="valid", timeout=180)
    ck = runner.crash_key(r)
    if ck == "timeout":
        rec.update(status="skip", reason="valid-program-timeout")
        return rec
    if ck is not None:
        rec.update(status="skip", reason="valid-program-crash (C01/C14)")
        return rec
    if r.rc != 0:
        errs = [re.sub(r" in file .*", "", l) for l in r.err.split("\n") if l.startswith("Error")]
        first = re.sub(r"\bv?\d+\b", "N", errs[0])[:80] if errs else "no-error-line"
        tags = (["head-and-body-aggr"] if head_and_body_aggr(prog) else []) + [t for t in dc.shape_tags(prog) if t == "aggr-inject-rec"]
        viols.append(("valid-rejected:%s%s" % (first, "|" + ",".join(tags) if tags else ""),
                      "a well-formed generated program is rejected:\n%s\n%s" % ("\n".join(errs[:4]), text)))
    rec["counts"]["valid_programs"] = 1
    ms = mutants(prog, rng)
    for i, (kind, mtext) in enumerate(ms):
        name = "m%d.dl" % i
        with open(os.path.join(d, name), "w") as f:
            f.write(mtext)
        od = "m%d" % i
        rm = runner.run_souffle(souffle, d, prog=name, outdir=od, timeout=180)
        rec["counts"]["mutants_run"] = rec["counts"].get("mutants_run", 0) + 1
        rec["counts"]["mutant:" + kind] = rec["counts"].get("mutant:" + kind, 0) + 1
        ck = runner.crash_key(rm)
        if ck is not None:
            viols.append(("defect-%s:crash:%s" % (kind, ck), "ill-formed program (%s) makes souffle die (%s) instead of reporting an error\n%s\n%s" % (kind, ck, rm.err[-2000:], mtext)))
            continue
        if rm.rc == 0:
            viols.append(("defect-%s:accepted" % kind, "a program with an injected defect (%s) is accepted and evaluated\n%s" % (kind, mtext)))
            continue
        if rm.rc != 1:
            viols.append(("defect-%s:exit-%s" % (kind, rm.rc), "ill-formed program (%s): exit status %s instead of 1\n%s\n%s" % (kind, rm.rc, rm.err[-1000:], mtext)))
        if not re.search(r"^Error", rm.err, flags=re.M):
            viols.append(("defect-%s:no-diagnostic" % kind, "ill-formed program (%s) rejected without an Error diagnostic\n%s\n%s" % (kind, rm.err[-1000:], mtext)))
        written = [f for f in os.listdir(os.path.join(d, od)) if f.endswith(".csv")]
        if written:
            viols.append(("defect-%s:evaluated" % kind, "ill-formed program (%s) was rejected but output files were written: %s\n%s" % (kind, written[:5], mtext)))
    rec["nontrivial"] = bool(ms)
    if viols:
        rec.update(status="viol", viols=viols[:4], program=text)
    else:
        rec.update(status="ok", sample=({"mutant": ms[0][0], "program": ms[0][1][-1500:]} if ms and seed % 50 == 0 else None))
    return rec


def check(tier, seed):
    t = pc.trees("plain", "san")
    n = 700 if tier == "quick" else 3500
    nsan = 40 if tier == "quick" else 160
    res = Result("exploration")
    res.rule = RULE
    base = seed * 1000000 + (0 if tier == "quick" else 50000) + 130000
    recs = runner.pmap(worker, [(base + i, t["plain"]) for i in range(n)] + [(base + n + i, t["san"]) for i in range(nsan)])
    pc.collect("C13", recs, res)
    res.min_nontrivial = n // 2
    res.assumptions = ["defects are injected by construction (10 kinds); programs are samples of the generator's distribution"]
    return res
