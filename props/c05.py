"""C05 Magic-set transformation preserves results."""
import os, random, re
from vlib import runner
from vlib.core import Result
from . import progcommon as pc, diffcommon as dc

RULE = ("case = one generated C01-fragment program (negation, aggregates, records, ADTs, recursion, optionally an eqrel relation) "
        "run by the real interpreter untransformed (baseline) and with --magic-transform=* / =<random subset of relations> / "
        "=* with --magic-transform-exclude=<random subset> / magic and no_magic qualifiers on random relations; oracle = every "
        "output CSV equal as a set to the untransformed output, no abort. non-trivial = distinct program with derived tuples "
        "for which --show=transformed-ast of at least one variant contains @magic relations (the transformation really fired).")


def cfg_fn(rng):
    cfg = dc.base_cfg(rng)
    if rng.random() < 0.3:
        cfg["p_eqrel"] = 1.0
    if rng.random() < 0.5:
        cfg["p_const_arg"] = 0.35      # constants in atoms give bound adornments
    return cfg


def requalify(text, qmap):
    """alternative program text with magic / no_magic qualifiers on the relations in qmap"""
    out = []
    for l in text.split("\n"):
        m = re.match(r"^\.decl (\w+)\((.*)\)(.*)$", l)
        if m and m.group(1) in qmap and "inline" not in m.group(3):
            l = l + " " + qmap[m.group(1)]
        out.append(l)
    return "\n".join(out)


def variants(prog, text, rng, d):
    names = [r.name for r in prog.rels]
    out = [dict(name="magic=*", cls="magic", args=["--magic-transform=*"])]
    sub = [n for n in names if rng.random() < 0.5] or names[:1]
    out.append(dict(name="magic=" + ",".join(sub), cls="magic", args=["--magic-transform=" + ",".join(sub)]))
    ex = [n for n in names if rng.random() < 0.3] or names[-1:]
    out.append(dict(name="magic=* exclude=" + ",".join(ex), cls="magic",
                    args=["--magic-transform=*", "--magic-transform-exclude=" + ",".join(ex)]))
    qmap = {n: ("magic" if rng.random() < 0.7 else "no_magic") for n in names if rng.random() < 0.5}
    if qmap:
        out.append(dict(name="qualifiers " + " ".join("%s:%s" % kv for kv in sorted(qmap.items())), cls="magic",
                        textfn=lambda t, qmap=qmap: requalify(t, qmap)))
    return out


def probe(v, run, d, od):
    pname = "p.dl"
    if v.get("prog") is not None:
        pname = [f for f in sorted(os.listdir(d)) if re.match(r"p\d+\.dl$", f)][-1]  # the text variant is the last one
    r = runner.run_souffle(SOUFFLE[0], d, args=list(v.get("args", ())) + ["--show=transformed-ast"], timeout=120, prog=pname, outdir=od)
    return "@magic" in r.out


SOUFFLE = [None]


def worker(arg):
    seed, souffle = arg
    SOUFFLE[0] = souffle
    return dc.run_case("C05", seed, souffle, variants, cfg_fn=cfg_fn, probe=probe)


def check(tier, seed):
    t = pc.trees("plain", "san")
    n = 400 if tier == "quick" else 1600
    nsan = 32 if tier == "quick" else 128
    res = Result("exploration")
    res.rule = RULE
    base = seed * 1000000 + (0 if tier == "quick" else 50000) + 500000
    recs = runner.pmap(worker, [(base + i, t["plain"]) for i in range(n)] + [(base + n + i, t["san"]) for i in range(nsan)])
    dc.finish("C05", recs, res, n)
    res.assumptions = ["interpreter only", "programs are samples of the generator's distribution"]
    return res
