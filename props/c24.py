"""C24 Intrinsic functors and constraints follow their value semantics."""
import math, os, random, re, struct
from vlib import runner
from vlib.core import Result
from . import progcommon as pc, tmpl, compiled
from gen import refeval
from gen.dl import s32, u32, f32

RULE = ("case = one table program: for 6-10 operators drawn from every arithmetic, bitwise, logical, comparison, conversion and "
        "string operation x every overload (number, unsigned, float, symbol), 40-120 argument tuples each - boundary set (0, "
        "+-1, type min/max, powers of two and neighbours, shift counts 0/31/32/33, +-0.0, denormals, FLT_MAX) x boundary set "
        "plus random values - arrive from a fact file (so nothing can be folded at compile time) and, for a tenth, as constants "
        "in the rule text; argument tuples outside the operator's defined domain (signed overflow, division by zero, INT_MIN / "
        "-1, out-of-range float-to-integer conversion, negative or huge exponents, substr out of range) are left out. The "
        "real interpreter evaluates `out(i, a op b) :- in(i, a, b).`; oracle = every result equals the Python reference "
        "(two's-complement / mod 2^32 / truncating division / masked shifts / binary32 / byte strings); in one case per run "
        "the same program is also compiled (`souffle -o`) and must give identical results. non-trivial = distinct table "
        "program (>= 200 operator evaluations compared).")

I_B = [0, 1, -1, 2, -2, 3, 7, 8, 15, 16, 31, 32, 33, 63, 64, 255, 256, 65535, 65536, 2 ** 30, 2 ** 31 - 1, -2 ** 31, -2 ** 31 + 1, 2 ** 31 - 2, 1000000007, -1000000007, 46340, 46341, -46341]
U_B = [0, 1, 2, 3, 7, 8, 15, 16, 31, 32, 33, 64, 255, 256, 65535, 65536, 2 ** 31 - 1, 2 ** 31, 2 ** 31 + 1, 2 ** 32 - 1, 2 ** 32 - 2, 3000000000, 65537]
F_B = [0.0, 1.0, -1.0, 0.5, -0.5, 1.5, 2.0, 3.0, 0.1, -0.1, 1e-3, 100.0, 16777216.0, 16777217.0, -16777216.0, 1e10, -1e10, 3.4028234663852886e38, -3.4028234663852886e38,
       1.1754943508222875e-38, 2147483647.0, -2147483648.0, 4294967295.0, 0.3333333432674408, 123456.7890625, 7.0, -7.5]
S_B = ["", "a", "b", "ab", "abc", "hello world", "0", "12", "-5", "007", "x y z", "A", "aa", "ba", "café", "Zq", "long string with several words"]


def pick(rng, kind):
    if kind == "number":
        return rng.choice(I_B) if rng.random() < 0.7 else rng.randint(-2 ** 31, 2 ** 31 - 1)
    if kind == "unsigned":
        return rng.choice(U_B) if rng.random() < 0.7 else rng.randint(0, 2 ** 32 - 1)
    if kind == "float":
        return f32(rng.choice(F_B)) if rng.random() < 0.7 else f32(rng.uniform(-1e6, 1e6))
    return rng.choice(S_B)


def lit(kind, v):
    if kind == "number":
        return str(v) if v >= 0 else "(%d)" % v
    if kind == "unsigned":
        return "%du" % v if False else str(v)
    if kind == "float":
        s = "%.60f" % v if abs(v) < 1e-3 and v != 0 else ("%.1f" % v if float("%.1f" % v) == v else repr(v))
        if "e" in s or "E" in s:
            s = "%.60f" % v if abs(v) < 1 else "%.1f" % v
        return s if v >= 0 else "(%s)" % s
    return '"%s"' % v


# (name, souffle expression template, argument kinds, result kind, reference)
def ops_table():
    T = []
    R = refeval.apply_functor

    def signed_guard(fn):
        def g(a):
            r = fn(a)
            return r
        return g

    def arith(kind, op, name, pyop):
        def ref(a):
            if kind == "number":
                x = pyop(a[0], a[1])
                if x is None:
                    raise refeval.Undefined("domain")
                if not (-2 ** 31 <= x < 2 ** 31):
                    raise refeval.Undefined("signed overflow")
                return x
            return R(op, kind, a)
        T.append(("%s_%s" % (name, kind[0]), "(a %s b)" % op, (kind, kind), kind, ref))
    for kind in ("number", "unsigned"):
        arith(kind, "+", "add", lambda x, y: x + y)
        arith(kind, "-", "sub", lambda x, y: x - y)
        arith(kind, "*", "mul", lambda x, y: x * y)
        T.append(("div_" + kind[0], "(a / b)", (kind, kind), kind, lambda a, k=kind: R("/", k, a)))
        T.append(("mod_" + kind[0], "(a % b)", (kind, kind), kind, lambda a, k=kind: R("%", k, a)))
        for op in ("band", "bor", "bxor", "bshl", "bshr", "bshru", "land", "lor", "lxor"):
            T.append(("%s_%s" % (op, kind[0]), "(a %s b)" % op, (kind, kind), kind, lambda a, k=kind, o=op: R(o, k, a)))
        T.append(("bnot_" + kind[0], "(bnot a)", (kind,), kind, lambda a, k=kind: R("bnot", k, a)))
        T.append(("lnot_" + kind[0], "(lnot a)", (kind,), kind, lambda a, k=kind: R("lnot", k, a)))
        T.append(("min_" + kind[0], "min(a, b)", (kind, kind), kind, lambda a, k=kind: R("min", k, a)))
        T.append(("max3_" + kind[0], "max(a, b, c)", (kind, kind, kind), kind, lambda a, k=kind: R("max", k, a)))

        def powref(a, k=kind):
            if a[1] < 0 or a[1] > 40 or abs(a[0]) > 70000:
                raise refeval.Undefined("exponent domain")
            if k == "unsigned" and a[0] ** a[1] > 2 ** 32 - 1:
                # the exponentiation goes through floating point; a result beyond the type's range is an out-of-range conversion
                raise refeval.Undefined("unsigned power beyond 2^32")
            return R("^", k, a)
        T.append(("pow_" + kind[0], "(a ^ b)", (kind, kind), kind, powref))

    def negref(a):
        if a[0] == -2 ** 31:
            raise refeval.Undefined("overflow")
        return -a[0]
    T.append(("neg_n", "(-a)", ("number",), "number", negref))
    for op, name in (("+", "add"), ("-", "sub"), ("*", "mul"), ("/", "div")):
        def fref(a, o=op):
            r = R(o, "float", a)
            return r
        T.append(("%s_f" % name, "(a %s b)" % op, ("float", "float"), "float", fref))
    T.append(("neg_f", "(-a)", ("float",), "float", lambda a: f32(-a[0])))
    T.append(("min_f", "min(a, b)", ("float", "float"), "float", lambda a: min(a)))
    T.append(("max_f", "max(a, b)", ("float", "float"), "float", lambda a: max(a)))
    # conversions
    T.append(("itof", "to_float(a)", ("number",), "float", lambda a: f32(float(a[0]))))
    T.append(("utof", "to_float(a)", ("unsigned",), "float", lambda a: f32(float(a[0]))))
    T.append(("itou", "to_unsigned(a)", ("number",), "unsigned", lambda a: u32(a[0])))
    T.append(("utoi", "to_number(a)", ("unsigned",), "number", lambda a: s32(a[0])))
    T.append(("ftoi", "to_number(a)", ("float",), "number", lambda a: R("ftoi", "float", a)))
    T.append(("ftou", "to_unsigned(a)", ("float",), "unsigned", lambda a: R("ftou", "float", a)))
    T.append(("itos", "to_string(a)", ("number",), "symbol", lambda a: str(a[0])))
    T.append(("utos", "to_string(a)", ("unsigned",), "symbol", lambda a: str(a[0])))

    def ston(a):
        return R("to_number", "symbol", a)
    T.append(("stoi", "to_number(a)", ("symbol",), "number", ston))
    T.append(("as_iu", "as(a, unsigned)", ("number",), "unsigned", lambda a: u32(a[0])))
    T.append(("as_ui", "as(a, number)", ("unsigned",), "number", lambda a: s32(a[0])))
    T.append(("as_fu", "as(a, unsigned)", ("float",), "unsigned", lambda a: struct.unpack("<I", struct.pack("<f", a[0]))[0]))
    # strings
    T.append(("cat", "cat(a, b)", ("symbol", "symbol"), "symbol", lambda a: a[0] + a[1]))
    T.append(("cat3", "cat(a, b, c)", ("symbol", "symbol", "symbol"), "symbol", lambda a: a[0] + a[1] + a[2]))
    T.append(("strlen", "strlen(a)", ("symbol",), "number", lambda a: len(a[0].encode("utf-8"))))

    def substr(a):
        s, i, n = a
        if any(ord(ch) > 127 for ch in s):
            raise refeval.Undefined("multi-byte")
        if i < 0 or n < 0 or i > len(s) or n > 1000:
            raise refeval.Undefined("substr range")
        return s[i:i + n]
    T.append(("substr", "substr(a, b, c)", ("symbol", "number", "number"), "symbol", substr))
    T.append(("min_s", "min(a, b)", ("symbol", "symbol"), "symbol", lambda a: min(x.encode() for x in a).decode()))
    T.append(("max_s", "max(a, b)", ("symbol", "symbol"), "symbol", lambda a: max(x.encode() for x in a).decode()))
    # constraints: result 1 iff the tuple passes
    for kind in ("number", "unsigned", "float", "symbol"):
        for op, name in (("<", "lt"), ("<=", "le"), (">", "gt"), (">=", "ge"), ("=", "eq"), ("!=", "ne")):
            def cref(a, o=op, k=kind):
                x, y = (a[0].encode(), a[1].encode()) if k == "symbol" else (a[0], a[1])
                return 1 if {"<": x < y, "<=": x <= y, ">": x > y, ">=": x >= y, "=": x == y, "!=": x != y}[o] else 0
            T.append(("c%s_%s" % (name, kind[0]), "CONSTRAINT a %s b" % op, (kind, kind), "bool", cref))
    T.append(("contains", "CONSTRAINT contains(a, b)", ("symbol", "symbol"), "bool", lambda a: 1 if a[0] in a[1] else 0))
    T.append(("match", "CONSTRAINT match(a, b)", ("symbol", "symbol"), "bool", None))
    return [t for t in T if t[4] is not None]


OPS = ops_table()


def small_arg(rng, name, i, kinds):
    """bias some arguments towards the operator's interesting domain"""
    k = kinds[i]
    if name.startswith(("bshl", "bshr", "bshru")) and i == 1:
        return rng.choice([0, 1, 5, 16, 31, 32, 33, 63, 64, 100] if k == "number" else [0, 1, 5, 16, 31, 32, 33, 63, 64, 4294967295])
    if name.startswith("pow") and i == 1:
        return rng.randint(0, 12)
    if name.startswith("pow") and i == 0:
        return rng.choice([0, 1, 2, 3, 7, 10, 46340, 65536] + ([-1, -2, -3, -10] if k == "number" else []))
    if name == "substr" and i > 0:
        return rng.randint(0, 8)
    if name == "stoi":
        return rng.choice(["0", "12", "-5", "007", "2147483647", "-2147483648", "42", "-1"])
    if name in ("ftoi",):
        return f32(rng.choice([0.0, 0.5, -0.5, 1.5, -1.5, 2147483520.0, -2147483648.0, 123456.789, -7.99, 16777217.0]))
    if name in ("ftou",):
        return f32(rng.choice([0.0, 0.5, 1.5, 4294967040.0, 123456.789, 7.99, 16777217.0, 2147483648.0]))
    if name.startswith(("div", "mod")) and i == 1 and rng.random() < 0.5:
        return rng.choice([1, 2, 3, 7, 10] + ([-1, -2, -3, -7] if k == "number" else [4294967295]))
    return pick(rng, k)


def fmt_in(kind, v):
    if kind == "float":
        return repr(float(v)) if v == v and abs(v) != float("inf") else str(v)
    return str(v)


def program(seed):
    rng = random.Random(seed)
    ops = rng.sample(OPS, rng.randint(6, 10))
    text, facts, expect = [], {}, {}
    for (name, expr, kinds, rkind, ref) in ops:
        n = rng.randint(40, 120)
        rows, exp = [], {}
        consts = []
        for i in range(n):
            args = [small_arg(rng, name, j, kinds) for j in range(len(kinds))]
            try:
                r = ref(args)
            except (refeval.Undefined, OverflowError):
                continue
            if rkind == "float" and (r != r or abs(r) == float("inf") or (r == 0.0 and math.copysign(1, r) < 0)):
                continue
            if any(isinstance(a, str) and ("\t" in a or "\n" in a) for a in args):
                continue
            rows.append([i] + args)
            exp[i] = r
        vars_ = ["a", "b", "c"][:len(kinds)]
        sig = ", ".join(["i:number"] + ["%s:%s" % (v, k) for v, k in zip(vars_, kinds)])
        text.append(".decl in_%s(%s)\n.input in_%s" % (name, sig, name))
        outk = "number" if rkind == "bool" else rkind
        text.append(".decl out_%s(i:number, r:%s)\n.output out_%s" % (name, outk, name))
        if expr.startswith("CONSTRAINT "):
            text.append("out_%s(i, 1) :- in_%s(i, %s), %s." % (name, name, ", ".join(vars_), expr[len("CONSTRAINT "):]))
            exp = {i: 1 for i, r in exp.items() if r == 1}
        else:
            text.append("out_%s(i, %s) :- in_%s(i, %s)." % (name, expr, name, ", ".join(vars_)))
            # a few evaluations with the operands as constants in the program text (not for conversions: a numeric constant takes
            # the type its context wants, so `to_unsigned(5)` / `as(-1, unsigned)` do not denote the overload under test)
            noconst = name in ("itof", "utof", "itou", "utoi", "ftoi", "ftou", "itos", "utos") or name.startswith("as_")
            for row in ([] if noconst else rows[:max(1, len(rows) // 10)]):
                sub = {v: lit(k, a) for v, k, a in zip(vars_, kinds, row[1:])}
                e = re.sub(r"\b(%s)\b" % "|".join(vars_), lambda m: sub[m.group(1)], expr)
                text.append("out_%s(%d, %s)." % (name, row[0] + 100000, e))
                exp[row[0] + 100000] = exp[row[0]]
        facts["in_" + name] = [[fmt_in("number", r[0])] + [fmt_in(k, a) for k, a in zip(kinds, r[1:])] for r in rows]
        expect[name] = (rkind, exp)
    return "\n".join(text) + "\n", facts, expect


def compare(d, outdir, expect, label):
    """-> list of (key, detail), number of evaluations compared"""
    bad, n = [], 0
    for name, (rkind, exp) in sorted(expect.items()):
        rows = tmpl.read_rows(d, "out_" + name, outdir, ints=False)
        if rows is None:
            bad.append(("%s:missing-output:%s" % (label, name), "no output for out_%s" % name))
            continue
        got = {}
        for r in rows:
            got.setdefault(int(r[0]), []).append(r[1] if len(r) > 1 else "")
        for i, want in sorted(exp.items()):
            n += 1
            g = got.get(i)
            if g is None:
                bad.append(("%s:no-result:%s" % (label, name), "%s: row %d produced no tuple, expected %r" % (name, i, want)))
                break
            if len(g) != 1:
                bad.append(("%s:several-results:%s" % (label, name), "%s: row %d produced %r" % (name, i, g)))
                break
            ok = False
            try:
                if rkind in ("number", "unsigned", "bool"):
                    ok = int(g[0]) == want
                elif rkind == "float":
                    ok = f32(float(g[0])) == want
                else:
                    ok = g[0] == want
            except ValueError:
                ok = False
            if not ok:
                bad.append(("%s:wrong-value:%s" % (label, name), "%s: row %d evaluates to %r, the reference says %r" % (name, i, g[0], want)))
                break
        extra = sorted(set(got) - set(exp))
        if extra:
            bad.append(("%s:unexpected-result:%s" % (label, name), "%s: rows %s produced a tuple although none is expected (constraint false / undefined)" % (name, extra[:5])))
    return bad, n


def worker(arg):
    seed, souffle, do_compile = arg
    text, facts, expect = program(seed)
    rec = dict(seed=seed, hash=runner.prog_hash(text), features=["op-" + n for n in expect], counts={})
    d = tmpl.setup_case("C24", seed, text, facts=facts)
    rec["dir"] = d
    viols = []
    r, ck = tmpl.run(souffle, d, outdir="interp")

    def rowtext(name, i):
        for row in facts.get("in_" + name, []):
            if row[0] == str(i if i < 100000 else i - 100000):
                return "arguments %s%s" % (row[1:], " (as constants)" if i >= 100000 else "")
        return ""
    if ck is not None:
        viols.append(("interpreter:crash:" + ck, "the interpreter died (%s)\n%s\n%s" % (ck, r.err[-2000:], text)))
    elif r.rc != 0:
        errs = [l for l in r.err.split("\n") if l.startswith("Error")][:3]
        viols.append(("interpreter:error-exit", "rejected: %s\n%s" % (errs, text)))
    else:
        bad, n = compare(d, "interp", expect, "interpreter")
        rec["counts"]["evaluations_compared"] = n
        for k, dtl in bad[:3]:
            m = re.search(r"^(\w+): row (\d+)", dtl)
            viols.append((k, dtl + ("; " + rowtext(m.group(1), int(m.group(2))) if m else "") + "\n" + "\n".join(l for l in text.split("\n") if m and ("out_" + m.group(1)) in l)[:1500]))
        rec["nontrivial"] = n >= 200
        if do_compile and not viols:
            rc, ck = compiled.build_exe(souffle, d)
            if ck is not None or rc.rc != 0:
                viols.append(("compiled:build-failed", "souffle -o failed\n%s" % rc.err[-1500:]))
            else:
                rr, ck = compiled.run_exe(d)
                if ck is not None or rr.rc != 0:
                    viols.append(("compiled:crash:%s" % (ck or rr.rc), "the compiled table program died\n%s" % rr.err[-1500:]))
                else:
                    bad, n2 = compare(d, "cout", expect, "compiled")
                    rec["counts"]["compiled_evaluations_compared"] = n2
                    for k, dtl in bad[:3]:
                        viols.append((k, dtl))
    if viols:
        rec.update(status="viol", viols=viols[:4], program=text)
    else:
        rec.update(status="ok", sample=({"program": text[:1500]} if seed % 50 == 0 else None))
    return rec


def check(tier, seed):
    t = pc.trees("plain", "san")
    n = 300 if tier == "quick" else 1500
    nsan = 30 if tier == "quick" else 150
    ncomp = 4 if tier == "quick" else 16
    res = Result("exploration")
    res.rule = RULE
    base = seed * 1000000 + (0 if tier == "quick" else 50000) + 240000
    jobs = [(base + i, t["plain"], i < ncomp) for i in range(n)] + [(base + n + i, t["san"], False) for i in range(nsan)]
    recs = runner.pmap(worker, jobs)
    pc.collect("C24", recs, res)
    res.min_nontrivial = n // 4
    res.extra["operators_in_table"] = len(OPS)
    res.assumptions = ["the reference semantics are those written in gen/refeval.py apply_functor and props/c24.py (from the documentation)",
                       "float ^, ord, to_string of floats and regular expressions beyond literal text are not compared"]
    return res
