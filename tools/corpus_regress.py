#!/usr/bin/env python3
"""developer helper: run every tests/evaluation program of /repo with the given tree's interpreter and compare the
produced CSV files with the expected ones shipped in the test directory (a cheap stand-in for the ctest suite
after a 'fix:' commit; the real suite is the authority)."""
import os, subprocess, sys, tempfile, shutil
from concurrent.futures import ThreadPoolExecutor
sys.path.insert(0, os.path.dirname(os.path.dirname(os.path.abspath(__file__))))
from vlib import build
souffle = build.souffle_bin(sys.argv[1] if len(sys.argv) > 1 else "plain")
root = os.path.join(build.REPO, "tests", "evaluation")


def one(name):
    d = os.path.join(root, name)
    dl = os.path.join(d, name + ".dl")
    if not os.path.exists(dl):
        return (name, "nodl")
    out = tempfile.mkdtemp(prefix="cr-", dir=os.path.join(build.VERIF, "work"))
    try:
        facts = os.path.join(d, "facts")
        r = subprocess.run([souffle, "-w", dl, "-F", facts if os.path.isdir(facts) else d, "-D", out], cwd=d, stdout=subprocess.PIPE, stderr=subprocess.PIPE, timeout=600)
        if r.returncode != 0:
            return (name, "rc=%d %s" % (r.returncode, r.stderr.decode(errors="replace")[-200:]))
        bad = []
        for f in os.listdir(d):
            if f.endswith(".csv"):
                try:
                    got = sorted(open(os.path.join(out, f), errors="replace").read().splitlines())
                except OSError:
                    bad.append(f + ":missing"); continue
                want = sorted(open(os.path.join(d, f), errors="replace").read().splitlines())
                if got != want:
                    bad.append(f)
        return (name, "DIFF " + ",".join(bad) if bad else "ok")
    except subprocess.TimeoutExpired:
        return (name, "timeout")
    finally:
        shutil.rmtree(out, ignore_errors=True)


os.makedirs(os.path.join(build.VERIF, "work"), exist_ok=True)
with ThreadPoolExecutor(16) as ex:
    res = list(ex.map(one, sorted(os.listdir(root))))
ok = [n for n, s in res if s == "ok"]
print("ok", len(ok), "of", len(res))
for n, s in res:
    if s != "ok":
        print(n, s)
