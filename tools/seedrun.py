#!/usr/bin/env python3
"""Run registered checks against a seeded change: apply /verif/seeded/<id>/patch.diff to /repo, run the quick (or thorough) tier of
the given properties, undo the change, record what each check said in /verif/seeded/<id>/result.json.
usage: seedrun.py <id> [--tier quick|thorough] [--props C25,C26] [--seed N]"""
import json, os, subprocess, sys, time

V = os.path.dirname(os.path.dirname(os.path.abspath(__file__)))
REPO = "/repo"


def sh(cmd, **kw):
    return subprocess.run(cmd, stdout=subprocess.PIPE, stderr=subprocess.STDOUT, text=True, **kw)


def main():
    sid = sys.argv[1]
    tier, props, seed, worktree = "quick", None, None, None
    a = sys.argv[2:]
    while a:
        if a[0] == "--tier":
            tier = a[1]
        elif a[0] == "--props":
            props = a[1].split(",")
        elif a[0] == "--seed":
            seed = a[1]
        elif a[0] == "--worktree":
            worktree = a[1]        # a scratch worktree that already has the change applied: checks run against it (VERIF_REPO), /repo stays untouched
        a = a[2:]
    d = os.path.join(V, "seeded", sid)
    meta = json.load(open(os.path.join(d, "meta.json")))
    props = props or meta.get("checks") or [meta["property"]]
    if worktree is None:
        st = sh(["git", "-C", REPO, "status", "--porcelain", "--untracked-files=no"])
        if st.stdout.strip():
            print("refusing: /repo has uncommitted changes\n" + st.stdout)
            return 2
        r = sh(["git", "-C", REPO, "apply", os.path.join(d, "patch.diff")])
        if r.returncode != 0:
            print("patch does not apply:\n" + r.stdout)
            return 2
    results = {}
    try:
        for p in props:
            env = dict(os.environ)
            if worktree:
                env["VERIF_REPO"] = worktree
                env["VERIF_BUILD_DIR"] = os.path.join(worktree, "_vbuild")
            if seed:
                env["VERIF_SEED"] = seed
            t0 = time.time()
            # the evidence file of a run against a seeded change is not evidence about /repo: keep the committed one
            evf = os.path.join(V, "evidence", p + ".json")
            saved = open(evf, "rb").read() if os.path.exists(evf) else None
            rr = sh(["python3", os.path.join(V, "verif.py"), "check", p, "--tier", tier], cwd=V, env=env)
            if os.path.exists(evf):
                os.replace(evf, os.path.join(d, "evidence-%s.json" % p))
            if saved is not None:
                open(evf, "wb").write(saved)
            keys = [l.strip()[4:] for l in rr.stdout.split("\n") if l.strip().startswith("key=")]
            last = [l for l in rr.stdout.split("\n") if l.startswith(p + " tier=")]
            results[p] = dict(against=("worktree " + worktree if worktree else "/repo with the patch applied"), exit=rr.returncode, violation_keys=sorted(set(keys))[:12], summary=(last[-1] if last else rr.stdout[-400:]), wall_s=round(time.time() - t0, 1), tier=tier,
                              seed=seed or os.environ.get("VERIF_SEED", "1"))
            print(p, "exit", rr.returncode, (last[-1] if last else "")[:200])
            for k in sorted(set(keys))[:6]:
                print("   key=" + k[:200])
    finally:
        if worktree is None:
            sh(["git", "-C", REPO, "checkout", "--", "."])
        # files the patch added would be untracked; remove them
        for l in (open(os.path.join(d, "patch.diff")) if worktree is None else []):
            if l.startswith("+++ b/"):
                f = os.path.join(REPO, l[6:].strip())
                if sh(["git", "-C", REPO, "ls-files", "--error-unmatch", l[6:].strip()]).returncode != 0 and os.path.exists(f):
                    os.unlink(f)
    out = os.path.join(d, "result.json")
    prev = {}
    if os.path.exists(out):
        prev = json.load(open(out))
    prev.setdefault("runs", []).append(dict(at=time.strftime("%Y-%m-%dT%H:%M:%SZ", time.gmtime()), results=results))
    prev["caught_by"] = sorted({p for run in prev["runs"] for p, r in run["results"].items() if r["exit"] == 1})
    json.dump(prev, open(out, "w"), indent=1)
    return 0


if __name__ == "__main__":
    sys.exit(main())
