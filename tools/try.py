#!/usr/bin/env python3
"""developer helper: run <n> cases of a differential check module in-process and summarise"""
import sys, os, importlib, collections
sys.path.insert(0, os.path.dirname(os.path.dirname(os.path.abspath(__file__))))
from vlib import build, runner
mod = importlib.import_module("props." + sys.argv[1])
first, n = int(sys.argv[2]), int(sys.argv[3])
tree = sys.argv[4] if len(sys.argv) > 4 else "plain"
binary = tree if "/" in tree else build.souffle_bin(tree)
recs = runner.pmap(mod.worker, [(first + i, binary) for i in range(n)], nproc=16)
st = collections.Counter(r.get("status") for r in recs)
print(st, "nontrivial", sum(1 for r in recs if r.get("nontrivial")))
print("skips", collections.Counter(r.get("reason") for r in recs if r.get("status") == "skip"))
cnt = collections.Counter()
for r in recs:
    for k, v in r.get("counts", {}).items():
        cnt[k] += v
print(dict(cnt))
keys = collections.Counter()
for r in recs:
    for k, dtl in r.get("viols", []):
        keys[k] += 1
print(keys)
byk = collections.defaultdict(list)
for r in recs:
    for k, dtl in r.get("viols", []):
        byk[k].append(r["seed"])
for k, v in byk.items():
    print("SEEDS", k, sorted(set(v))[:6])
seen = set()
for r in recs:
    if r.get("status") == "error":
        print("ERROR", r.get("detail"))
    for k, dtl in r.get("viols", []):
        if k in seen:
            continue
        seen.add(k)
        print("=" * 80); print(r["seed"], k, r.get("dir")); print(dtl[:int(os.environ.get("TRYLEN", "700"))])
