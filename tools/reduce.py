#!/usr/bin/env python3
"""developer helper: greedy reducer for generated programs.
usage: reduce.py <seed> <module> <tree> <key-substring>   (module = props module with cfg_fn + variants, e.g. c05)
Keeps removing clauses / heads / body literals / facts while some variant still produces a violation whose key
contains <key-substring> (baseline must keep succeeding). Prints the reduced program and the failing variant."""
import sys, os, importlib, random, copy, shutil
sys.path.insert(0, os.path.dirname(os.path.dirname(os.path.abspath(__file__))))
from vlib import build, runner
from gen import dl, progen
from props import diffcommon as dc

seed, modname, tree, want = int(sys.argv[1]), sys.argv[2], sys.argv[3], sys.argv[4]
mod = importlib.import_module("props." + modname)
souffle = build.souffle_bin(tree)
if hasattr(mod, "SOUFFLE"):
    mod.SOUFFLE[0] = souffle
rng = random.Random(seed)
cfg = mod.cfg_fn(rng) if hasattr(mod, "cfg_fn") else dc.base_cfg(rng)
prog = progen.generate(seed, cfg)
text = dl.fmt_program(prog)
D = os.path.join(runner.WORK, "reduce", "%s-%d" % (modname, seed))
shutil.rmtree(D, ignore_errors=True)
os.makedirs(D)
SELF = hasattr(mod, "reduce_outcome")
vs = [dict(name="self")] if SELF else mod.variants(prog, text, rng, D)
BASE_ARGS = list(getattr(mod, "BASELINE_ARGS", []))


def outcome(p, v):
    """-> violation key of variant v on program p or None"""
    if SELF:
        return mod.reduce_outcome(p, souffle, D)
    t = dl.fmt_program(p)
    runner.write_case(D, p, text=t)
    b = runner.run_souffle(souffle, D, args=BASE_ARGS, outdir="base", timeout=60)
    if runner.crash_key(b) is not None or b.rc != 0:
        return None
    base, pr = runner.read_outputs(D, p, outdir="base")
    if pr:
        return None
    pname = "p.dl"
    if v.get("textfn") is not None:
        pname = "pv.dl"
        with open(os.path.join(D, pname), "w") as f:
            f.write(v["textfn"](t))
    if v.get("pre") is not None:
        r = runner.run_souffle(souffle, D, args=list(v["pre"]), outdir="vpre", timeout=120, prog=pname)
        if runner.crash_key(r) is not None or r.rc != 0:
            return "pre:crash:" + (runner.crash_key(r) or "error-exit")
    r = runner.run_souffle(souffle, D, args=list(v.get("args", ())), env_extra=v.get("env", {}), outdir="v", timeout=60, prog=pname)
    ck = runner.crash_key(r)
    if ck is not None:
        return "crash:" + ck
    if r.rc != 0:
        return "error-exit" + (":" + v["errkey"](r.err) if v.get("errkey") else "")
    outs, pr = runner.read_outputs(D, p, outdir="v")
    if pr:
        return "output"
    if runner.diff_outputs(p, outs, base):
        return "wrong-result"
    return None


target = None
for v in vs:
    k = outcome(prog, v)
    print("variant", v["name"], "->", k)
    if k and want in k and target is None:
        target = (v, k)
if target is None:
    print("no variant reproduces", want)
    sys.exit(1)
v, key = target


def fails(p):
    k = outcome(p, v)
    return k is not None and want in k


def candidates(p):
    for i in range(len(p.clauses)):
        def f(q, i=i):
            del q.clauses[i]
        yield f
    for i, c in enumerate(p.clauses):
        if len(c.heads) > 1:
            for j in range(len(c.heads)):
                def f(q, i=i, j=j):
                    del q.clauses[i].heads[j]
                yield f
        for j in range(len(c.body)):
            def f(q, i=i, j=j):
                del q.clauses[i].body[j]
            yield f
            if isinstance(c.body[j], dl.Disj):
                for a in range(len(c.body[j].alts)):
                    def f(q, i=i, j=j, a=a):
                        alt = q.clauses[i].body[j].alts[a]
                        q.clauses[i].body[j:j + 1] = list(alt)
                    yield f
    for i, r in enumerate(p.rels):
        if len(r.facts) == 1:
            def f(q, i=i):
                q.rels[i].facts = []
            yield f
        if len(r.facts) > 1:
            def f(q, i=i):
                q.rels[i].facts = q.rels[i].facts[:len(q.rels[i].facts) // 2]
            yield f
            def f(q, i=i):
                q.rels[i].facts = q.rels[i].facts[len(q.rels[i].facts) // 2:]
            yield f
        if r.is_output:
            def f(q, i=i):
                q.rels[i].is_output = False
            yield f
    for i in range(len(p.rels)):
        def f(q, i=i):
            del q.rels[i]
        yield f


import time
T0 = time.time()
changed = True
while changed and time.time() - T0 < float(os.environ.get("REDUCE_SECS", "240")):
    changed = False
    for f in list(candidates(prog)):
        q = copy.deepcopy(prog)
        try:
            f(q)
            dl.fmt_program(q)
        except Exception:
            continue
        if fails(q):
            prog = q
            changed = True
            break
print("=" * 60)
print("variant:", v["name"], v.get("args"), v.get("env"), "key:", key)
print(dl.fmt_program(prog))
for r in prog.rels:
    if r.is_input:
        print("--", r.name + ".facts:"); print(dl.fmt_facts(r))
print("dir:", D)
