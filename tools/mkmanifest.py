#!/usr/bin/env python3
import json, os, sys
sys.path.insert(0, os.path.dirname(os.path.dirname(os.path.abspath(__file__))))
from props import registry

V = os.path.dirname(os.path.dirname(os.path.abspath(__file__)))
ids = [json.loads(l)["id"] for l in open(os.path.join(V, "properties.jsonl"))]
checks = []
for pid in ids:
    c = registry.CLAIMED.get(pid)
    if not c:
        continue
    checks.append({
        "property_id": pid,
        "quick_cmd": "python3 verif.py check %s --tier quick" % pid,
        "thorough_cmd": "python3 verif.py check %s --tier thorough" % pid,
        "evidence_file": "/verif/evidence/%s.json" % pid,
        "replay_cmd_template": "python3 verif.py replay {path}",
        "engine": c.get("engine", "verif.py"),
        "level_claimed": {"category": c["category"], "text": c["text"], "design_ref": "DESIGN.md section " + c["design"]},
        "level_note": c["note"],
        "technique": c["technique"],
    })
na = []
for pid in ids:
    if pid in registry.CLAIMED:
        continue
    na.append({"property_id": pid, "reason": registry.NOT_APPLICABLE.get(pid, "not yet implemented in this round: no check is registered, nothing is claimed")})
man = {
    "version": 1,
    "setup_cmd": "python3 verif.py setup",
    "hooks": {
        "guard": "SOUFFLE_LANG_SOUFFLE_VERIF",
        "enable": "checks build /repo into /verif/.build/{san,tsan,plain} with -DSOUFFLE_LANG_SOUFFLE_VERIF in CMAKE_CXX_FLAGS; hooks act only when SOUFFLE_VERIF_SCHED / SOUFFLE_VERIF_SKIP_RAM / SOUFFLE_VERIF_DERIV_LOG are set",
        "baseline_off_cmd": "cmake --build /repo/_build -j 16 && ctest --test-dir /repo/_build -j8 --timeout 900",
        "source_commits": registry.HOOK_COMMITS if hasattr(registry, "HOOK_COMMITS") else [],
        "add_only": True,
    },
    "engines": [
        {"name": "verif.py", "path": "/verif/verif.py", "serves_properties": sorted(registry.CLAIMED.keys()),
         "kind_free_text": "python driver: build manager, generators, reference models, differential runner, harness driver, sanitizer triage, evidence writer"},
        {"name": "harness kit", "path": "/verif/harness", "serves_properties": [p for p in sorted(registry.CLAIMED) if p >= "C25"],
         "kind_free_text": "C++ harnesses over the header-only containers with a cooperative serial scheduler (compiler-inserted scheduling points) and free-running TSan/ASan flavours"},
    ],
    "checks": checks,
    "not_applicable": na,
    "notes": "Technique family: runtime monitoring and sanitizers. See DESIGN.md. known_findings.json lists recorded and fixed defects.",
}
with open(os.path.join(V, "MANIFEST.json"), "w") as f:
    json.dump(man, f, indent=1)
    f.write("\n")
try:
    import jsonschema
    jsonschema.validate(man, json.load(open("/root/.vp/MANIFEST.schema.json")))
    print("MANIFEST valid; claimed:", len(checks), "not_applicable:", len(na))
except ImportError:
    print("MANIFEST written (jsonschema not available for validation)")
