"""E1 build manager: persistent build trees of /repo under /verif/.build, rebuilt
incrementally from /repo's current working tree at the start of every check."""
import fcntl, hashlib, os, subprocess, sys, time

REPO = os.environ.get("VERIF_REPO", "/repo")
VERIF = os.path.dirname(os.path.dirname(os.path.abspath(__file__)))
BUILD = os.environ.get("VERIF_BUILD_DIR") or os.path.join(VERIF, ".build")   # background runs from a snapshot may reuse /verif/.build
GUARD = "SOUFFLE_LANG_SOUFFLE_VERIF"

CLANGXX = "clang++-14"
CLANG = "clang-14"

COMMON = [
    "-G", "Ninja", "-DCMAKE_BUILD_TYPE=None", "-DSOUFFLE_ENABLE_TESTING=OFF",
    "-DSOUFFLE_GIT=OFF", "-DSOUFFLE_USE_CURSES=OFF", "-DSOUFFLE_BASH_COMPLETION=OFF",
    "-DSOUFFLE_NDEBUG=OFF",
]

TREES = {
    # every sequential whole-program monitor
    "san": dict(
        cxx=CLANGXX, cc=CLANG,
        flags="-O0 -gline-tables-only -fno-omit-frame-pointer -fsanitize=address,undefined "
              "-fno-sanitize=object-size -fno-sanitize-recover=all -D_GLIBCXX_ASSERTIONS -D" + GUARD,
        extra=["-DSOUFFLE_USE_LIBCPP=OFF"],
    ),
    # every parallel whole-program monitor
    "tsan": dict(
        cxx=CLANGXX, cc=CLANG,
        flags="-O1 -gline-tables-only -fno-omit-frame-pointer -fsanitize=thread -D" + GUARD,
        extra=["-DSOUFFLE_USE_LIBCPP=OFF"],
    ),
    # plain optimised tree with hooks (throughput-bound monitors, compile mode)
    "plain": dict(
        cxx=CLANGXX, cc=CLANG,
        flags="-O1 -fno-omit-frame-pointer -D_GLIBCXX_ASSERTIONS -D" + GUARD,
        extra=["-DSOUFFLE_USE_LIBCPP=OFF"],
    ),
}


def log(msg):
    sys.stderr.write("[build] %s\n" % msg)
    sys.stderr.flush()


class Lock:
    def __init__(self, name):
        os.makedirs(BUILD, exist_ok=True)
        self.path = os.path.join(BUILD, name + ".lock")

    def __enter__(self):
        self.f = open(self.path, "w")
        fcntl.flock(self.f, fcntl.LOCK_EX)
        return self

    def __exit__(self, *a):
        fcntl.flock(self.f, fcntl.LOCK_UN)
        self.f.close()


def tree_dir(name):
    return os.path.join(BUILD, name)


def souffle_bin(name):
    return os.path.join(tree_dir(name), "src", "souffle")


def ensure_tree(name, jobs=16, targets=("souffle", "souffleprof")):
    """Configure if needed and (incrementally) build the tree from /repo's working tree."""
    spec = TREES[name]
    d = tree_dir(name)
    with Lock(name):
        t0 = time.time()
        if not os.path.exists(os.path.join(d, "build.ninja")):
            os.makedirs(d, exist_ok=True)
            cmd = ["cmake", "-S", REPO, "-B", d] + COMMON + spec["extra"] + [
                "-DCMAKE_CXX_COMPILER=" + spec["cxx"], "-DCMAKE_C_COMPILER=" + spec["cc"],
                "-DCMAKE_CXX_FLAGS=" + spec["flags"], "-DCMAKE_C_FLAGS=" + spec["flags"].replace("-D_GLIBCXX_ASSERTIONS", ""),
            ]
            r = subprocess.run(cmd, stdout=subprocess.PIPE, stderr=subprocess.STDOUT, text=True)
            if r.returncode != 0:
                sys.stderr.write(r.stdout)
                raise RuntimeError("cmake configure failed for tree " + name)
        cmd = ["cmake", "--build", d, "-j", str(jobs), "--target"] + list(targets)
        r = subprocess.run(cmd, stdout=subprocess.PIPE, stderr=subprocess.STDOUT, text=True)
        if r.returncode != 0:
            sys.stderr.write(r.stdout[-8000:])
            raise RuntimeError("build failed for tree " + name)
        dt = time.time() - t0
        if dt > 5:
            log("tree %s built in %.0fs" % (name, dt))
    return souffle_bin(name)


def hash_files(paths):
    h = hashlib.sha256()
    for p in sorted(paths):
        h.update(p.encode())
        try:
            with open(p, "rb") as f:
                h.update(f.read())
        except OSError:
            h.update(b"<missing>")
    return h.hexdigest()


def include_hash():
    """Hash of every header under /repo/src/include (the containers are header-only)."""
    root = os.path.join(REPO, "src", "include")
    paths = []
    for dp, dn, fn in os.walk(root):
        for f in fn:
            paths.append(os.path.join(dp, f))
    return hash_files(paths)


if __name__ == "__main__":
    for n in sys.argv[1:]:
        print(ensure_tree(n))
