"""E6 sanitizer log triage (policy of DESIGN.md section 5)."""
import os, re

SOUFFLE_PAT = re.compile(r"(/repo/src/|/verif/harness/h_|souffle/(datastructure|utility|io|provenance|profile)/|/src/include/souffle/|interpreter/|synthesiser/|ast2ram/|/ram/|/ast/)")
FRAME = re.compile(r"^\s+#(\d+)\s+(.*?)\s+(\S+?):(\d+)(?::\d+)?\s+\(")
FRAME2 = re.compile(r"^\s+#(\d+)\s+(.*?)\s+\(")


def _strip_templates(fn):
    # drop template arguments to make keys stable
    out, depth = [], 0
    for ch in fn:
        if ch == "<":
            depth += 1
        elif ch == ">":
            depth -= 1
        elif depth == 0:
            out.append(ch)
    s = "".join(out)
    s = re.sub(r"\(.*\)", "", s)
    return s.strip()


def parse_tsan(text):
    """Returns list of reports: dict(kind, sides=[dict(access, atomic, frames=[(fn,file)])])."""
    reports = []
    blocks = re.split(r"^={18}$", text, flags=re.M)
    for b in blocks:
        m = re.search(r"WARNING: ThreadSanitizer: (.+?) \(pid=", b)
        if not m:
            continue
        kind = m.group(1).strip()
        sides = []
        cur = None
        for line in b.splitlines():
            ma = re.match(r"^\s+(?:Previous\s+)?(atomic\s+)?(read|write) of size (\d+) at", line, flags=re.I)
            if ma:
                cur = dict(access=ma.group(2).lower(), atomic=bool(ma.group(1)), frames=[])
                sides.append(cur)
                continue
            if re.match(r"^\s+(Location is|Thread T\d+ |Mutex M\d+|SUMMARY|As if synchronized)", line):
                cur = None
                continue
            if cur is None:
                continue
            mf = FRAME.match(line)
            if mf:
                cur["frames"].append((_strip_templates(mf.group(2)), mf.group(3)))
            else:
                mf2 = FRAME2.match(line)
                if mf2:
                    cur["frames"].append((_strip_templates(mf2.group(2)), ""))
        reports.append(dict(kind=kind, sides=sides, text=b.strip()[:6000]))
    return reports


def _top_souffle(frames):
    for fn, fl in frames:
        if SOUFFLE_PAT.search(fl):
            return fn
    return None


def classify_tsan(rep):
    """-> ('violation'|'diagnostic', key)"""
    kind = rep["kind"]
    if kind.startswith("heap-use-after-free") or kind.startswith("double-free") or "use-after-free" in kind:
        s = rep["sides"]
        tops = [(_top_souffle(x["frames"]) or "?") for x in s[:2]]
        return "violation", "tsan:" + kind.split(" ")[0] + ":" + "|".join(sorted(tops))
    if kind.startswith("data race") and len(rep["sides"]) >= 2:
        a, b = rep["sides"][0], rep["sides"][1]
        ta, tb = _top_souffle(a["frames"]), _top_souffle(b["frames"])
        cls = "%s%s/%s%s" % ("a" if a["atomic"] else "", a["access"], "a" if b["atomic"] else "", b["access"])
        key = "tsan:race:" + cls + ":" + "|".join(sorted([ta or "?", tb or "?"]))
        if a["access"] == "write" and b["access"] == "write" and not a["atomic"] and not b["atomic"] and ta and tb:
            return "violation", key
        return "diagnostic", key
    return "diagnostic", "tsan:" + kind


def triage_tsan_logs(paths):
    """Returns (violations: {key: sample_text}, diagnostics: {key: count})."""
    viol, diag = {}, {}
    for p in paths:
        try:
            with open(p, errors="replace") as f:
                text = f.read()
        except OSError:
            continue
        for rep in parse_tsan(text):
            c, key = classify_tsan(rep)
            if c == "violation":
                viol.setdefault(key, rep["text"])
            else:
                diag[key] = diag.get(key, 0) + 1
    return viol, diag


def asan_key(stderr):
    """Normalised key of an ASan/UBSan/assert abort from stderr text; None if nothing recognisable."""
    m = re.search(r"ERROR: AddressSanitizer: (\S+)", stderr)
    if m:
        top = None
        for line in stderr.splitlines():
            mf = FRAME.match(line)
            if mf and SOUFFLE_PAT.search(mf.group(3)):
                top = _strip_templates(mf.group(2))
                break
        return "asan:%s:%s" % (m.group(1), top or "?")
    m = re.search(r"(\S+?):(\d+):\d+: runtime error: (.*)", stderr)
    if m:
        msg = re.sub(r"-?\d[\d.e+]*", "N", m.group(3))[:80]
        return "ubsan:%s:%s" % (os.path.basename(m.group(1)), msg)
    m = re.search(r"(\S+?):(\d+): (.*?): Assertion `(.*?)' failed", stderr)
    if m:
        if "fatal error; see std err" in m.group(4):
            # souffle::fatal(): the message is the line printed just before the assertion
            linestart = stderr.rfind("\n", 0, m.start()) + 1
            before = [l for l in stderr[:linestart].splitlines() if l.strip()]
            msg = re.sub(r"\d+", "N", before[-1].strip())[:100] if before else ""
            return "assert:fatal:%s" % msg
        return "assert:%s:%s" % (os.path.basename(m.group(1)), m.group(4)[:100])
    m = re.search(r"Assertion '(.*?)' failed", stderr)   # _GLIBCXX_ASSERTIONS
    if m:
        return "glibcxx-assert:%s" % m.group(1)[:100]
    m = re.search(r"terminate called after throwing an instance of '(.*?)'", stderr)
    if m:
        w = re.search(r"what\(\):\s*(.*)", stderr)
        return "uncaught:%s:%s" % (m.group(1), (w.group(1)[:60] if w else ""))
    m = re.search(r"(Segmentation violation|Floating-point arithmetic exception|Unknown) signal( \[\d+\])?(?: in rule:\n(.*))?", stderr)
    if m:
        # souffle's own signal handler turns SIGSEGV / SIGFPE into exit(1) with the rule text
        rule = (m.group(3) or "").split(":-")[0]
        head = re.sub(r"\{[bf]*\}", "{}", re.sub(r"\d+", "N", rule.split("(")[0]))[:60]
        shape = "fact" if (m.group(3) is not None and ":-" not in m.group(3)) else "rule"
        return "signal-handler:%s:%s:%s" % (m.group(1).split(" ")[0], shape, head if head.startswith(("@", "+")) else "-")
    m = re.search(r"Fatal error|fatal: |Internal error", stderr)
    if m:
        line = [l for l in stderr.splitlines() if m.group(0) in l][0]
        return "fatal:" + re.sub(r"\d+", "N", line)[:120]
    return None
