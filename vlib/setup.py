"""setup_cmd: build the souffle trees and every harness flavour from files on disk only."""
import os, sys, time
from concurrent.futures import ThreadPoolExecutor
from . import build, harness

HARNESSES = ["h_uf", "h_orw"]


def all_harness_items():
    items = []
    for h in sorted(set(HARNESSES)):
        if not os.path.exists(os.path.join(harness.HDIR, h + ".cpp")):
            continue
        for fl in harness.FLAVOURS:
            items.append((h, fl, ()))
    return items


def main():
    t0 = time.time()
    os.makedirs(build.BUILD, exist_ok=True)
    # two trees at a time (Engine.cpp needs ~6 GB per compile job at its peak)
    with ThreadPoolExecutor(max_workers=2) as ex:
        futs = [ex.submit(build.ensure_tree, n, 12) for n in ("san", "tsan", "plain")]
        for f in futs:
            f.result()
    harness.ensure_many(all_harness_items(), jobs=16)
    sys.stderr.write("[setup] done in %.0fs\n" % (time.time() - t0))
    return 0
