"""setup_cmd: build the souffle trees and every harness flavour from files on disk only."""
import os, sys, time
from concurrent.futures import ThreadPoolExecutor
from . import build, harness

HARNESSES = ["h_uf", "h_orw", "h_btree", "h_brie", "h_btdel", "h_eqrel", "h_fly"]
TREES = ("san", "plain")


def all_harness_items():
    items = []
    for h in sorted(set(HARNESSES)):
        if not os.path.exists(os.path.join(harness.HDIR, h + ".cpp")):
            continue
        for fl in harness.FLAVOURS:
            items.append((h, fl, ()))
    return items


def main():
    t0 = time.time()
    os.makedirs(build.BUILD, exist_ok=True)
    # cheap part first: every harness flavour of the data-structure checks (C29, C30)
    harness.ensure_many(all_harness_items(), jobs=16)
    from props import c12
    c12.ensure_functors()          # libvfunctors.so for the lattice check
    sys.stderr.write("[setup] harnesses built in %.0fs\n" % (time.time() - t0))
    # the two souffle trees the registered whole-program checks (C03-C06) use; both at once
    # (Engine.cpp needs ~6 GB per compile job at its peak, hence 10 jobs each)
    with ThreadPoolExecutor(max_workers=2) as ex:
        futs = [ex.submit(build.ensure_tree, n, 10) for n in TREES]
        for f in futs:
            f.result()
    sys.stderr.write("[setup] done in %.0fs\n" % (time.time() - t0))
    return 0
