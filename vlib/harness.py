"""E5 driver: builds harness flavours against /repo/src/include and runs them 16-way."""
import json, os, re, subprocess, sys, time
from concurrent.futures import ThreadPoolExecutor

from . import build
from .core import Inconclusive

HDIR = os.path.join(build.VERIF, "harness")
OUT = os.path.join(build.BUILD, "h")
CXX = "clang++-14"
COV = "-fsanitize-coverage=trace-pc-guard,trace-loads,trace-stores"
BASE = ["-std=c++17", "-g", "-fopenmp=libomp", "-Wno-deprecated-declarations",
        "-I" + os.path.join(build.REPO, "src", "include"), "-I" + HDIR]

FLAVOURS = {
    # cooperative scheduler: pre-emption at every load/store/edge, asserts on
    "serial": dict(cflags=["-O1", COV], rt="sched_serial.cpp", rtflags=["-O1"], ldflags=[]),
    # real parallelism, asserts on
    "free": dict(cflags=["-O2", COV], rt="sched_free.cpp", rtflags=["-O2"], ldflags=[]),
    # real parallelism under ThreadSanitizer (+perturbation callbacks)
    "tsan": dict(cflags=["-O1", "-fsanitize=thread", COV], rt="sched_free.cpp", rtflags=["-O1"],
                 ldflags=["-fsanitize=thread"]),
    # real parallelism under ASan+UBSan + libstdc++ assertions
    "asan": dict(cflags=["-O1", "-fsanitize=address,undefined", "-fno-sanitize=object-size",
                         "-fno-sanitize-recover=all", "-D_GLIBCXX_ASSERTIONS", "-fno-omit-frame-pointer", COV],
                 rt="sched_free.cpp", rtflags=["-O1"], ldflags=["-fsanitize=address,undefined"]),
}


def _src_hash(name, flavour, defines):
    files = [os.path.join(HDIR, f) for f in os.listdir(HDIR)]
    return build.hash_files(files) + build.include_hash() + flavour + " ".join(defines)


def binary(name, flavour, defines=()):
    tag = ""
    if defines:
        import hashlib
        tag = "." + hashlib.sha1(" ".join(defines).encode()).hexdigest()[:8]
    return os.path.join(OUT, "%s.%s%s" % (name, flavour, tag))


def ensure(name, flavour, defines=()):
    """Builds harness <name> (harness/<name>.cpp) in the given flavour if sources or
    /repo headers changed. Returns the binary path."""
    os.makedirs(OUT, exist_ok=True)
    spec = FLAVOURS[flavour]
    exe = binary(name, flavour, defines)
    stamp = exe + ".stamp"
    want = _src_hash(name, flavour, defines)
    with build.Lock("h-" + os.path.basename(exe)):
        if os.path.exists(exe) and os.path.exists(stamp) and open(stamp).read() == want:
            return exe
        # private to this (harness, flavour, defines, process): builds of different harnesses run
        # concurrently in one process and must not share (and unlink) one runtime object
        rto = "%s.rt.%d.o" % (exe, os.getpid())
        cmd = [CXX, "-std=c++17", "-g", "-I" + HDIR] + spec["rtflags"] + ["-c", os.path.join(HDIR, spec["rt"]), "-o", rto]
        r = subprocess.run(cmd, stdout=subprocess.PIPE, stderr=subprocess.STDOUT, text=True)
        if r.returncode != 0:
            raise Inconclusive("harness runtime does not compile: " + r.stdout[-3000:])
        cmd = [CXX] + BASE + spec["cflags"] + ["-D" + d for d in defines] + [os.path.join(HDIR, name + ".cpp"), rto, "-o", exe] + \
            spec["ldflags"] + ["-lpthread", "-ldl"]
        r = subprocess.run(cmd, stdout=subprocess.PIPE, stderr=subprocess.STDOUT, text=True)
        try:
            os.unlink(rto)
        except OSError:
            pass
        if r.returncode != 0:
            raise Inconclusive("harness %s/%s does not compile against /repo headers: %s" % (name, flavour, r.stdout[-4000:]))
        with open(stamp, "w") as f:
            f.write(want)
    return exe


def ensure_many(items, jobs=16):
    """items: list of (name, flavour, defines)."""
    with ThreadPoolExecutor(max_workers=jobs) as ex:
        return list(ex.map(lambda it: ensure(*it), items))


ENV_SAN = {
    "ASAN_OPTIONS": "abort_on_error=0:detect_leaks=0:halt_on_error=1:exitcode=97",
    "UBSAN_OPTIONS": "print_stacktrace=1:halt_on_error=1:exitcode=97",
}


class RunOut:
    def __init__(self):
        self.stats = {}
        self.viols = []      # (key, hist, detail, cmdline)
        self.hangs = []      # cmdline
        self.crashes = []    # (rc, tail, cmdline)
        self.tsan_logs = []  # log file paths
        self.procs = 0


def run_parallel(exe, common_args, total, nproc=16, timeout=600, env_extra=None, first=0, chunk=None, tsan_log_dir=None):
    """Splits [first, first+total) histories over nproc processes. Returns RunOut."""
    out = RunOut()
    if chunk is None:
        chunk = max(1, (total + nproc - 1) // nproc)
    jobs = []
    f = first
    while f < first + total:
        c = min(chunk, first + total - f)
        jobs.append((f, c))
        f += c

    def one(job):
        f, c = job
        cmd = [exe] + [str(a) for a in common_args] + ["--first", str(f), "--count", str(c)]
        env = dict(os.environ)
        if not tsan_log_dir:
            env.update(ENV_SAN)
        if tsan_log_dir:
            os.makedirs(tsan_log_dir, exist_ok=True)
            lp = os.path.join(tsan_log_dir, "tsan.%d" % f)
            env["TSAN_OPTIONS"] = ("halt_on_error=0:ignore_noninstrumented_modules=1:detect_deadlocks=0:"
                                   "suppress_equal_addresses=0:history_size=4:report_thread_leaks=0:exitcode=0:log_path=" + lp)
        if env_extra:
            env.update(env_extra)
        try:
            r = subprocess.run(cmd, stdout=subprocess.PIPE, stderr=subprocess.PIPE, text=True, errors="replace",
                               timeout=timeout, env=env)
            return (cmd, r.returncode, r.stdout, r.stderr)
        except subprocess.TimeoutExpired as e:
            so = e.stdout.decode(errors="replace") if isinstance(e.stdout, bytes) else (e.stdout or "")
            return (cmd, "timeout", so, "")

    with ThreadPoolExecutor(max_workers=nproc) as ex:
        results = list(ex.map(one, jobs))
    # a watchdog expiry is wall-clock, hence load dependent: re-run those chunks alone, one at a
    # time, with 4x the time before the hang is believed
    slow = [i for i, r in enumerate(results) if r[1] == "timeout"]
    if slow:
        out.stats["watchdog_reruns"] = len(slow)
        timeout = timeout * 4
        for i in slow:
            results[i] = one(jobs[i])
    for cmd, rc, so, se in results:
        out.procs += 1
        cl = " ".join(cmd)
        for line in so.splitlines():
            if line.startswith("VIOL "):
                m = re.match(r"VIOL key=(\S+) hist=(-?\d+) detail=(.*)", line)
                if m:
                    out.viols.append((m.group(1), int(m.group(2)), m.group(3), cl))
            elif line.startswith("STATS "):
                try:
                    st = json.loads(line[6:])
                    for k, v in st.items():
                        if k in ("edges_total", "serial"):
                            out.stats[k] = max(out.stats.get(k, 0), v)
                        elif k == "edges_hit":
                            out.stats[k] = max(out.stats.get(k, 0), v)
                        else:
                            out.stats[k] = out.stats.get(k, 0) + v
                except ValueError:
                    pass
        if rc == "timeout":
            out.hangs.append(cl)
        elif rc not in (0, 1, 3):
            out.crashes.append((rc, (so[-1500:] + "\n" + se[-3000:]), cl))
        elif rc == 3 and not any(v[3] == cl for v in out.viols):
            out.viols.append(("hang", -1, so[-500:], cl))
    if tsan_log_dir and os.path.isdir(tsan_log_dir):
        out.tsan_logs = [os.path.join(tsan_log_dir, x) for x in sorted(os.listdir(tsan_log_dir))]
    return out
