"""E8: check driver, verdicts, evidence writer, known-findings matcher, replay files."""
import json, os, re, sys, time, traceback, hashlib

VERIF = os.path.dirname(os.path.dirname(os.path.abspath(__file__)))
EVIDENCE = os.path.join(VERIF, "evidence")
WORK = os.path.join(VERIF, "work")
KNOWN = os.path.join(VERIF, "known_findings.json")


class Inconclusive(Exception):
    pass


class Violation:
    def __init__(self, key, detail, replay=None):
        self.key = key            # normalised signature used for known-findings matching
        self.detail = detail      # human readable
        self.replay = replay or {}  # dict written to the replay file


class Result:
    def __init__(self, level="exploration"):
        self.level = level
        self.evaluations = 0
        self.nontrivial = set()      # hashes / keys of distinct non-trivial cases
        self.rule = ""
        self.samples = []
        self.violations = []
        self.extra = {}              # additional coverage keys
        self.assumptions = []
        self.min_nontrivial = 2
        self.inconclusive = None     # reason string

    def add_sample(self, s, limit=4):
        if len(self.samples) < limit:
            self.samples.append(s)

    def count(self, key, n=1):
        self.extra[key] = self.extra.get(key, 0) + n


def load_known():
    if not os.path.exists(KNOWN):
        return {"findings": [], "fixed": []}
    with open(KNOWN) as f:
        return json.load(f)


def match_known(prop, key, known):
    for f in known.get("findings", []):
        if f.get("property") != prop:
            continue
        if "key" in f and f["key"] == key:
            return f
        if "key_regex" in f and re.fullmatch(f["key_regex"], key):
            return f
    return None


def write_evidence(prop, tier, seed, res, wall, nviol):
    os.makedirs(EVIDENCE, exist_ok=True)
    cov = {
        "evaluations": int(res.evaluations),
        "distinct_nontrivial": len(res.nontrivial),
        "rule": res.rule,
        "samples": res.samples if res.samples else ["<none>"],
    }
    cov.update(res.extra)
    ev = {
        "property_id": prop,
        "tier": tier,
        "seed": int(seed),
        "level": res.level,
        "coverage": cov,
        "assumptions": res.assumptions,
        "wall_s": round(wall, 2),
        "violations": nviol,
    }
    if res.inconclusive:
        ev["coverage"]["inconclusive"] = res.inconclusive
    path = os.path.join(EVIDENCE, prop + ".json")
    tmp = path + ".tmp"
    with open(tmp, "w") as f:
        json.dump(ev, f, indent=1, sort_keys=True, default=str)
        f.write("\n")
    os.replace(tmp, path)
    return path


def run_check(prop, fn, tier, seed):
    """fn(tier, seed) -> Result. Returns the process exit code."""
    t0 = time.time()
    try:
        res = fn(tier, seed)
    except Inconclusive as e:
        res = Result()
        res.inconclusive = str(e)
        res.evaluations = 0
    except Exception:
        traceback.print_exc()
        res = Result()
        res.inconclusive = "harness error: " + traceback.format_exc()[-2000:]
    wall = time.time() - t0
    known = load_known()
    unlisted = []
    listed = {}
    for v in res.violations:
        k = match_known(prop, v.key, known)
        if k is not None:
            listed.setdefault(k.get("key", k.get("key_regex")), (k, v))
        else:
            unlisted.append(v)
    for kk, (k, v) in listed.items():
        print("KNOWN-FINDING: property=%s %s [key=%s]" % (prop, k.get("what", ""), v.key))
    rc = 0
    if unlisted:
        rdir = os.path.join(WORK, "replay", prop)
        os.makedirs(rdir, exist_ok=True)
        seen = set()
        for v in unlisted:
            if v.key in seen:
                continue
            seen.add(v.key)
            h = hashlib.sha1((v.key + json.dumps(v.replay, sort_keys=True, default=str)).encode()).hexdigest()[:12]
            path = os.path.join(rdir, "%s-%s.json" % (tier, h))
            with open(path, "w") as f:
                json.dump({"property": prop, "key": v.key, "detail": v.detail, "seed": seed, "tier": tier,
                           "replay": v.replay}, f, indent=1, default=str)
            print("VIOLATION property=%s replay=%s" % (prop, path))
            print("  key=%s" % v.key)
            print("  " + v.detail[:1500].replace("\n", "\n  "))
        rc = 1
    elif res.inconclusive:
        print("INCONCLUSIVE property=%s: %s" % (prop, res.inconclusive[:2000]))
        rc = 2
    elif len(res.nontrivial) < res.min_nontrivial:
        res.inconclusive = "too few non-trivial cases observed (%d < %d)" % (len(res.nontrivial), res.min_nontrivial)
        print("INCONCLUSIVE property=%s: %s" % (prop, res.inconclusive))
        rc = 2
    path = write_evidence(prop, tier, seed, res, wall, len(unlisted))
    print("%s tier=%s seed=%s evaluations=%d distinct_nontrivial=%d violations=%d known=%d wall=%.1fs -> %s" % (
        prop, tier, seed, res.evaluations, len(res.nontrivial), len(unlisted), len(listed), wall,
        "HELD" if rc == 0 else ("VIOLATED" if rc == 1 else "INCONCLUSIVE")))
    return rc
