"""E4 differential runner: runs souffle configurations on generated cases, parses and compares outputs."""
import hashlib, os, shutil, signal, subprocess, sys, time, traceback
from concurrent.futures import ProcessPoolExecutor

from . import build, santriage
from .core import WORK

sys.path.insert(0, build.VERIF)
from gen import dl  # noqa: E402

SAN_ENV = {
    "ASAN_OPTIONS": "abort_on_error=0:detect_leaks=0:halt_on_error=1:exitcode=97:allocator_may_return_null=1",
    "UBSAN_OPTIONS": "print_stacktrace=1:halt_on_error=1:exitcode=97",
}


def tsan_env(logpath):
    return {"TSAN_OPTIONS": "halt_on_error=0:ignore_noninstrumented_modules=1:detect_deadlocks=0:suppress_equal_addresses=0:"
                            "history_size=4:report_thread_leaks=0:exitcode=0:log_path=" + logpath}


def case_dir(prop, seed):
    d = os.path.join(WORK, "cases", prop, "%d-%d" % (os.getpid(), seed))
    shutil.rmtree(d, ignore_errors=True)
    os.makedirs(d)
    return d


def write_case(d, prog, name="p.dl", text=None):
    with open(os.path.join(d, name), "w") as f:
        f.write(text if text is not None else dl.fmt_program(prog))
    for r in prog.rels:
        if r.is_input:
            with open(os.path.join(d, r.name + ".facts"), "w") as f:
                f.write(dl.fmt_facts(r))


class Run:
    __slots__ = ("rc", "out", "err", "secs", "timed_out", "cmd")


def run_cmd(cmd, cwd, env_extra=None, timeout=120, stdin=None):
    env = dict(os.environ)
    env.update(SAN_ENV)
    if env_extra:
        env.update(env_extra)
    r = Run()
    r.cmd = " ".join(cmd)
    t0 = time.time()
    try:
        p = subprocess.run(cmd, cwd=cwd, env=env, stdout=subprocess.PIPE, stderr=subprocess.PIPE, timeout=timeout,
                           input=stdin, text=True, errors="replace")
        r.rc, r.out, r.err, r.timed_out = p.returncode, p.stdout, p.stderr, False
    except subprocess.TimeoutExpired as e:
        r.rc, r.timed_out = None, True
        r.out = e.stdout.decode(errors="replace") if isinstance(e.stdout, bytes) else (e.stdout or "")
        r.err = e.stderr.decode(errors="replace") if isinstance(e.stderr, bytes) else (e.stderr or "")
    r.secs = time.time() - t0
    return r


def run_souffle(binary, d, args=(), env_extra=None, timeout=120, prog="p.dl", outdir=".", stdin=None):
    if outdir != ".":
        os.makedirs(os.path.join(d, outdir), exist_ok=True)
    cmd = [binary, "--no-preprocessor", "-w", prog, "-F.", "-D" + outdir] + list(args)
    return run_cmd(cmd, d, env_extra, timeout, stdin)


def crash_key(run):
    """None if the run ended with exit status 0 or 1 without a sanitizer/assert trace; else a normalised key"""
    if run.timed_out:
        return "timeout"
    k = santriage.asan_key(run.err)
    if run.rc in (0, 1) and k is None:
        return None
    if run.rc in (0, 1) and k is not None and not k.startswith(("asan:", "ubsan:", "assert:", "glibcxx-assert:", "uncaught:", "signal-handler:")):
        return None
    if k is not None:
        return k
    if run.rc is not None and run.rc < 0:
        try:
            return "signal:" + signal.Signals(-run.rc).name
        except ValueError:
            return "signal:%d" % -run.rc
    return "exit:%s" % run.rc


def read_outputs(d, prog, outdir="."):
    """-> (dict rel -> set(rows), problems list)"""
    outs, problems = {}, []
    for r in prog.rels:
        if not r.is_output:
            continue
        path = os.path.join(d, outdir, r.name + ".csv")
        try:
            with open(path, errors="surrogateescape") as f:
                text = f.read()
        except OSError:
            problems.append("missing output file %s.csv" % r.name)
            continue
        try:
            rows = dl.parse_output(text, r.attrs)
        except dl.ParseError as e:
            problems.append("unparsable output %s.csv: %s" % (r.name, e))
            continue
        s = set(rows)
        if len(s) != len(rows):
            dup = [x for x in s if rows.count(x) > 1][:3]
            problems.append("duplicate tuples in %s.csv: %r" % (r.name, dup))
        outs[r.name] = s
    return outs, problems


def diff_outputs(prog, got, want, names=("got", "want")):
    """-> list of human readable differences (empty = equal) for output relations"""
    diffs = []
    for r in prog.rels:
        if not r.is_output or r.name not in got or r.name not in want:
            continue
        a, b = got[r.name], want[r.name]
        if a != b:
            diffs.append("%s: only in %s %s; only in %s %s" % (
                r.name, names[0], sorted(a - b, key=repr)[:4], names[1], sorted(b - a, key=repr)[:4]))
    return diffs


def prog_hash(text):
    return hashlib.sha1(text.encode("utf-8", "surrogateescape")).hexdigest()[:16]


def _guard(fn, arg):
    try:
        return fn(arg)
    except Exception:
        return dict(status="error", detail=traceback.format_exc()[-3000:], seed=arg)


def pmap(fn, args, nproc=16):
    """parallel map with processes; fn must be a top-level function"""
    args = list(args)
    nproc = int(os.environ.get("VERIF_NPROC", nproc))      # to share the machine with another job
    if nproc <= 1 or len(args) <= 1:
        return [_guard(fn, a) for a in args]
    with ProcessPoolExecutor(max_workers=nproc) as ex:
        futs = [ex.submit(_guard, fn, a) for a in args]
        return [f.result() for f in futs]
