// C30 harness: souffle::OptimisticReadWriteLock driven by 2-3 (serial) / 2-8 (free) clients
// issuing random read / write / try-write / upgrade sequences, each write phase either
// committing or aborting, around a multi-word payload.
#include "hcommon.h"
#include "souffle/utility/ParallelUtil.h"

#include <atomic>

#ifndef _OPENMP
#error "harness must be compiled with OpenMP so that the real lock implementation is selected"
#endif

using souffle::OptimisticReadWriteLock;

namespace {

constexpr int WORDS = 3;

#if HC_TSAN
// plain payload: unordered write/write pairs become visible to ThreadSanitizer
struct Payload {
    volatile uint64_t w[WORDS];
    uint64_t get(int i) const { return w[i]; }
    void set(int i, uint64_t v) { w[i] = v; }
};
#else
struct Payload {
    std::atomic<uint64_t> w[WORDS];
    uint64_t get(int i) const { return w[i].load(std::memory_order_relaxed); }
    void set(int i, uint64_t v) { w[i].store(v, std::memory_order_relaxed); }
};
#endif

enum Kind { READ, WRITE_COMMIT, WRITE_ABORT, TRY_COMMIT, TRY_ABORT, UPG_COMMIT, UPG_ABORT, NKINDS };
const char* KN[] = {"read", "write+commit", "write+abort", "try+commit", "try+abort", "upgrade+commit", "upgrade+abort"};

struct Shared {
    OptimisticReadWriteLock lock;
    Payload pay;
    // shadow state (only meaningful monitors use them; updated inside non-pre-emptible sections in serial mode)
    std::atomic<int> tight_holders{0};   // inc after acquisition, dec before release
    std::atomic<int> loose_holders{0};   // inc before attempting, dec after release returned / attempt failed
    std::atomic<uint64_t> commits_begun{0};
    std::atomic<uint64_t> committed{0};  // value of the last committed write
};

struct Ctx {
    Shared* sh;
    hc::Report* rep;
    hc::Stats* st;
    long long hist;
    std::string* desc;
    bool serial;
};

// local (per thread) counters merged after the run
struct Local {
    long long reads_ok = 0, reads_fail = 0, upg_ok = 0, upg_fail = 0, try_ok = 0, try_fail = 0, commits = 0, aborts = 0;
};

void write_phase(Ctx& c, int tid, uint64_t& ctr, bool commit, Local& L) {
    Shared& s = *c.sh;
    // exclusivity
    int h = s.tight_holders.fetch_add(1) + 1;
    if (h != 1) c.rep->viol("two-writers", c.hist, "%d clients hold write permission at once | %s", h, c.desc->c_str());
    if (commit) {
        vs::atomic_begin();
        s.commits_begun.fetch_add(1);
        vs::atomic_end();
        uint64_t v = ((uint64_t)(tid + 1) << 40) | (++ctr);
        for (int i = 0; i < WORDS; i++) s.pay.set(i, v);
        vs::atomic_begin();
        s.committed.store(v);
        vs::atomic_end();
        s.tight_holders.fetch_sub(1);
        s.lock.end_write();
        L.commits++;
    } else {
        s.tight_holders.fetch_sub(1);
        s.lock.abort_write();
        L.aborts++;
    }
    s.loose_holders.fetch_sub(1);
}

void client(Ctx c, int tid, std::vector<int> kinds, Local* Lp) {
    Shared& s = *c.sh;
    Local& L = *Lp;
    uint64_t ctr = 0;
    for (int k : kinds) {
        switch (k) {
            case READ:
            case UPG_COMMIT:
            case UPG_ABORT: {
                const uint64_t m0 = s.commits_begun.load();  // before the lease is taken
                auto lease = s.lock.start_read();
                uint64_t snap[WORDS];
                for (int i = 0; i < WORDS; i++) snap[i] = s.pay.get(i);
                bool torn = false;
                for (int i = 1; i < WORDS; i++) torn |= snap[i] != snap[0];
                if (k == READ) {
                    vs::atomic_begin();
                    bool ok = s.lock.validate(lease);
                    uint64_t comm = s.committed.load();
                    uint64_t m1 = s.commits_begun.load();
                    int loose = s.loose_holders.load();
                    vs::atomic_end();
                    if (ok) {
                        L.reads_ok++;
                        if (torn) c.rep->viol("validated-torn-read", c.hist, "validate()==true for a torn snapshot %llx/%llx/%llx | %s", (unsigned long long)snap[0], (unsigned long long)snap[1], (unsigned long long)snap[2], c.desc->c_str());
                        else if (c.serial && snap[0] != comm) c.rep->viol("validated-stale-read", c.hist, "validate()==true but snapshot %llx is not the committed value %llx | %s", (unsigned long long)snap[0], (unsigned long long)comm, c.desc->c_str());
                    } else {
                        L.reads_fail++;
                        // no committing write phase began since before the lease was requested (so at most
                        // aborted phases intervened) and nobody holds or attempts the lock right now
                        if (c.serial && loose == 0 && m1 == m0) {
                            c.rep->viol("abort-invalidates-reader", c.hist, "validate()==false although no commit happened since the lease and no writer is active | %s", c.desc->c_str());
                        }
                    }
                } else {
                    s.loose_holders.fetch_add(1);
                    bool ok = s.lock.try_upgrade_to_write(lease);
                    if (!ok) {
                        s.loose_holders.fetch_sub(1);
                        L.upg_fail++;
                        break;
                    }
                    L.upg_ok++;
                    // we hold the write permission: the payload is stable now
                    uint64_t cur[WORDS];
                    for (int i = 0; i < WORDS; i++) cur[i] = s.pay.get(i);
                    bool stale = torn;
                    for (int i = 0; i < WORDS; i++) stale |= cur[i] != snap[i];
                    if (stale) c.rep->viol("upgrade-on-stale-lease", c.hist, "try_upgrade_to_write succeeded although the payload changed since the lease (snapshot %llx/%llx/%llx now %llx/%llx/%llx) | %s", (unsigned long long)snap[0], (unsigned long long)snap[1], (unsigned long long)snap[2], (unsigned long long)cur[0], (unsigned long long)cur[1], (unsigned long long)cur[2], c.desc->c_str());
                    write_phase(c, tid, ctr, k == UPG_COMMIT, L);
                }
                break;
            }
            case WRITE_COMMIT:
            case WRITE_ABORT: {
                s.loose_holders.fetch_add(1);
                s.lock.start_write();
                write_phase(c, tid, ctr, k == WRITE_COMMIT, L);
                break;
            }
            case TRY_COMMIT:
            case TRY_ABORT: {
                s.loose_holders.fetch_add(1);
                if (s.lock.try_start_write()) {
                    L.try_ok++;
                    write_phase(c, tid, ctr, k == TRY_COMMIT, L);
                } else {
                    L.try_fail++;
                    s.loose_holders.fetch_sub(1);
                }
                break;
            }
        }
    }
}

std::string* g_desc = nullptr;
long long g_hist = -1;
void hang_handler() {
    printf("VIOL key=hang hist=%lld detail=step budget exhausted (a lock operation does not terminate) | %s\n", g_hist, g_desc ? g_desc->c_str() : "");
    fflush(stdout);
}

}  // namespace

int main(int argc, char** argv) {
    hc::Args args(argc, argv);
    uint64_t seed = args.num("seed", 1);
    long long first = args.num("first", 0), count = args.num("count", 1000);
    int maxT = (int)args.num("threads", 3), maxK = (int)args.num("ops", 6);
    bool fixedShape = args.has("fixed");
    uint64_t budget = args.num("budget", 300000);
    hc::Report rep;
    hc::Stats st;
    vs::set_hang_handler(hang_handler);
    for (long long h = first; h < first + count; h++) {
        hc::Rng rng(hc::mix(seed, h));
        int T = fixedShape ? maxT : 2 + (int)rng.below(maxT - 1);
        int K = fixedShape ? maxK : 1 + (int)rng.below(maxK);
        static const uint32_t invs[] = {2, 3, 4, 8, 16, 32, 64};
        vs::Config cfg;
        cfg.seed = hc::mix(seed ^ 0x5151, h);
        cfg.switch_inv = invs[rng.below(7)];
        cfg.step_budget = budget;
        Shared sh;
        for (int i = 0; i < WORDS; i++) sh.pay.set(i, 0);
        std::vector<std::vector<int>> kinds(T);
        std::string desc = "T=" + std::to_string(T) + " inv=" + std::to_string(cfg.switch_inv) + " ";
        for (int t = 0; t < T; t++) {
            desc += "T" + std::to_string(t) + ":";
            for (int k = 0; k < K; k++) {
                int kd = (int)rng.below(NKINDS);
                if (rng.chance(1, 3)) kd = READ;
                kinds[t].push_back(kd);
                desc += std::string(" ") + KN[kd];
            }
            desc += "; ";
        }
        g_desc = &desc;
        g_hist = h;
        std::vector<Local> locals(T);
        std::vector<std::function<void()>> clients;
        Ctx c{&sh, &rep, &st, h, &desc, vs::is_serial()};
        for (int t = 0; t < T; t++) clients.push_back([=, &locals]() { client(c, t, kinds[t], &locals[t]); });
        vs::run(cfg, clients);
        st.add("histories");
        st.add("steps", (long long)vs::steps());
        st.add("switches", (long long)vs::switches());
        st.schedules.insert(vs::schedule_hash());
        bool contended = false;
        for (auto& L : locals) {
            st.add("reads_validated", L.reads_ok);
            st.add("reads_failed_validation", L.reads_fail);
            st.add("upgrades_ok", L.upg_ok);
            st.add("upgrades_failed", L.upg_fail);
            st.add("try_write_ok", L.try_ok);
            st.add("try_write_failed", L.try_fail);
            st.add("commits", L.commits);
            st.add("aborts", L.aborts);
            contended |= L.reads_fail || L.upg_fail || L.try_fail;
        }
        if (contended) st.add("histories_with_overlap");
        // quiescent: lock must be free and payload == last committed value
        if (sh.lock.is_write_locked()) rep.viol("left-locked", h, "lock still write-locked after all clients finished | %s", desc.c_str());
        if (sh.tight_holders.load() != 0) rep.viol("left-locked", h, "shadow holder count non-zero | %s", desc.c_str());
        for (int i = 0; i < WORDS; i++)
            if (sh.pay.get(i) != sh.committed.load()) {
                rep.viol("lost-write", h, "final payload %llx differs from last committed value %llx | %s", (unsigned long long)sh.pay.get(i), (unsigned long long)sh.committed.load(), desc.c_str());
                break;
            }
        if (rep.violations >= 20) break;
    }
    st.add("violations", rep.violations);
    for (auto& k : rep.keys) st.add("viol_" + k.first, k.second);
    st.print();
    return rep.violations ? 1 : 0;
}
