// C21 generic embedding driver. The generated program is included as one translation unit with
// __EMBEDDED_SOUFFLE__ defined, so that it contributes its factory but no main().
//   usage: driver <program name> <script file>
// script commands (one per line, tab separated):
//   insert <rel> v1 v2 ...     contains <rel> v1 v2 ...     iter <rel>     size <rel>
//   run    purge_in    purge_out    purge_internal    threads <n>    loadall <dir>    printall <dir>
// every command that returns something prints one line: "<cmd index>\t<kind>\t<payload>"
#define __EMBEDDED_SOUFFLE__
#include GENERATED_CPP
#include <fstream>
#include <iomanip>
#include <iostream>
#include <limits>
#include <sstream>

using namespace souffle;

static std::vector<std::string> split(const std::string& s) {
    std::vector<std::string> out;
    std::string cur;
    for (char c : s) {
        if (c == '\t') {
            out.push_back(cur);
            cur.clear();
        } else {
            cur.push_back(c);
        }
    }
    out.push_back(cur);
    return out;
}

static bool fill(Relation* rel, tuple& t, const std::vector<std::string>& f, std::size_t from) {
    if (f.size() - from != rel->getArity()) return false;
    for (std::size_t i = 0; i < rel->getArity(); ++i) {
        const std::string& v = f[from + i];
        switch (rel->getAttrType(i)[0]) {
            case 'i': t << static_cast<RamSigned>(std::stoll(v)); break;
            case 'u': t << static_cast<RamUnsigned>(std::stoull(v)); break;
            case 'f': t << static_cast<RamFloat>(std::stof(v)); break;
            case 's': t << v; break;
            default: return false;
        }
    }
    return true;
}

static std::string show(Relation* rel, tuple& t) {
    std::ostringstream os;
    os << std::setprecision(std::numeric_limits<RamFloat>::max_digits10);
    t.rewind();
    for (std::size_t i = 0; i < rel->getArity(); ++i) {
        if (i) os << "\x1f";
        switch (rel->getAttrType(i)[0]) {
            case 'i': { RamSigned x; t >> x; os << x; break; }
            case 'u': { RamUnsigned x; t >> x; os << x; break; }
            case 'f': { RamFloat x; t >> x; os << x; break; }
            case 's': { std::string x; t >> x; os << x; break; }
            default: { RamDomain x; t >> x; os << "#" << x; break; }
        }
    }
    return os.str();
}

int main(int argc, char** argv) {
    if (argc < 3) return 2;
    SouffleProgram* prog = ProgramFactory::newInstance(argv[1]);
    if (prog == nullptr) {
        std::cout << "NOFACTORY\n";
        return 3;
    }
    std::ifstream in(argv[2]);
    std::string line;
    int idx = 0;
    while (std::getline(in, line)) {
        ++idx;
        auto f = split(line);
        const std::string& cmd = f[0];
        if (cmd == "run") {
            prog->run();
        } else if (cmd == "threads") {
            prog->setNumThreads(std::stoul(f[1]));
        } else if (cmd == "purge_in") {
            prog->purgeInputRelations();
        } else if (cmd == "purge_out") {
            prog->purgeOutputRelations();
        } else if (cmd == "purge_internal") {
            prog->purgeInternalRelations();
        } else if (cmd == "loadall") {
            prog->loadAll(f[1]);
        } else if (cmd == "printall") {
            prog->printAll(f[1]);
        } else {
            Relation* rel = prog->getRelation(f[1]);
            if (rel == nullptr) {
                std::cout << idx << "\tnorel\t" << f[1] << "\n";
                continue;
            }
            if (cmd == "insert") {
                tuple t(rel);
                if (fill(rel, t, f, 2)) rel->insert(t);
                else std::cout << idx << "\tbadtuple\t\n";
            } else if (cmd == "contains") {
                tuple t(rel);
                if (fill(rel, t, f, 2)) std::cout << idx << "\tcontains\t" << (rel->contains(t) ? 1 : 0) << "\n";
                else std::cout << idx << "\tbadtuple\t\n";
            } else if (cmd == "size") {
                std::cout << idx << "\tsize\t" << rel->size() << "\n";
            } else if (cmd == "iter") {
                std::size_t n = 0;
                for (auto& t : *rel) {
                    std::cout << idx << "\ttuple\t" << show(rel, t) << "\n";
                    ++n;
                }
                std::cout << idx << "\titerated\t" << n << "\n";
            }
        }
    }
    std::cout << "END\n";
    delete prog;
    return 0;
}
