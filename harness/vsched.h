// Interface between harness TUs (instrumented) and the scheduler runtime (uninstrumented).
// Two runtimes implement it: sched_serial.cpp (cooperative, one thread runs at a time,
// pre-emption possible at every instrumented load/store/edge) and sched_free.cpp (real
// parallelism with seeded perturbation at the same points).
#pragma once
#include <cstddef>
#include <cstdint>
#include <functional>
#include <vector>

namespace vs {

struct Config {
    uint64_t seed = 1;           // schedule seed of this history
    uint32_t switch_inv = 16;    // serial: switch with probability 1/switch_inv at each point
    uint64_t step_budget = 4000000;  // serial: more steps than this in one history = hang
    int pct_depth = 0;           // serial: >0 selects PCT-style priority schedule with d change points
    uint64_t pct_len = 4000;     // serial: estimated history length for PCT change points
};

// true if the serial runtime is linked
bool is_serial();

// Runs the clients to completion (client i on pooled thread i). In serial mode exactly one
// client runs at any time. Returns false if the step budget was exhausted (the runtime then
// has already called the hang handler; by default it prints a line and _exit(3)s).
bool run(const Config& cfg, const std::vector<std::function<void()>>& clients);

// Non-pre-emptible section (serial mode). In free mode these are no-ops.
void atomic_begin();
void atomic_end();

// Logical clock: serial = step counter of the current history; free = global atomic counter.
uint64_t now();

// id of the calling client within the current run (-1 outside)
int self();

// per-history statistics of the last run
uint64_t steps();
uint64_t switches();
uint64_t schedule_hash();

// edge coverage of the instrumented TU(s): total guards and guards hit so far
size_t edges_total();
size_t edges_hit();
// number of hits of the guard of a given index (for contention evidence)
uint64_t edge_hits(size_t idx);

// called at every scheduling point of the running client (serial mode), inside a
// non-pre-emptible section; used for step-level invariants. nullptr disables.
void set_step_hook(void (*hook)());

// called when the step budget is exhausted; if it returns, the process _exit(3)s.
void set_hang_handler(void (*handler)());

// explicit scheduling point (usable from uninstrumented code)
void point();

}  // namespace vs
