// C25 harness: souffle::btree_set under concurrent insertion (with / without operation hints),
// followed by queries against a sorted-set model.
#include "hcommon.h"
#include "souffle/RamTypes.h"
#include "souffle/utility/StreamUtil.h"
#include "souffle/datastructure/BTree.h"

#include <algorithm>
#include <array>
#include <set>

#ifndef _OPENMP
#error "harness must be compiled with OpenMP so that the concurrent B-tree code is selected"
#endif

using namespace souffle;

namespace {

template <typename K>
struct KeyGen;
template <>
struct KeyGen<int> {
    static int make(uint64_t v) { return (int)v; }
    static std::string str(int k) { return std::to_string(k); }
};
template <std::size_t N>
struct KeyGen<std::array<RamDomain, N>> {
    // spread the scalar over the columns so that comparisons need several columns
    static std::array<RamDomain, N> make(uint64_t v) {
        std::array<RamDomain, N> a{};
        for (std::size_t i = 0; i < N; i++) {
            a[N - 1 - i] = (RamDomain)(v % 5) - 2;
            v /= 5;
        }
        a[0] += (RamDomain)v;
        return a;
    }
    static std::string str(const std::array<RamDomain, N>& k) {
        std::string s = "(";
        for (std::size_t i = 0; i < N; i++) s += (i ? "," : "") + std::to_string(k[i]);
        return s + ")";
    }
};

struct Params {
    uint64_t seed;
    long long first, count;
    int maxT, maxK, range;
    uint64_t budget;
    bool fixed;
};

template <typename Tree, typename Key>
int run_cfg(const Params& P, const char* cfgname) {
    hc::Report rep;
    hc::Stats st;
    static long long cur_hist;
    static std::string cur_desc;
    vs::set_hang_handler([]() {
        printf("VIOL key=hang hist=%lld detail=step budget exhausted (insert does not terminate) | %s\n", cur_hist, cur_desc.c_str());
        fflush(stdout);
    });
    using KG = KeyGen<Key>;
    for (long long h = P.first; h < P.first + P.count; h++) {
        hc::Rng rng(hc::mix(P.seed, h));
        int T = P.fixed ? P.maxT : 2 + (int)rng.below(P.maxT - 1);
        int K = P.fixed ? P.maxK : 1 + (int)rng.below(P.maxK);
        int range = 2 + (int)rng.below(P.range);
        static const uint32_t invs[] = {2, 4, 8, 16, 32, 64, 128, 256};
        vs::Config cfg;
        cfg.seed = hc::mix(P.seed ^ 0xb7ee, h);
        cfg.switch_inv = invs[rng.below(8)];
        cfg.step_budget = P.budget;
        bool hints = rng.chance(1, 2);
        int shape = (int)rng.below(5);  // 0 random, 1 ascending, 2 descending, 3 heavy duplicates, 4 disjoint ranges
        std::vector<std::vector<uint64_t>> seqs(T);
        for (int t = 0; t < T; t++) {
            for (int k = 0; k < K; k++) {
                uint64_t v;
                switch (shape) {
                    case 1: v = (uint64_t)k * range / (K ? K : 1) + rng.below(2); break;
                    case 2: v = (uint64_t)(K - k) * range / (K ? K : 1) + rng.below(2); break;
                    case 3: v = rng.below(3 + range / 8); break;
                    case 4: v = (uint64_t)t * range + rng.below(range); break;
                    default: v = rng.below(range);
                }
                seqs[t].push_back(v);
            }
        }
        char buf[160];
        snprintf(buf, sizeof buf, "cfg=%s T=%d K=%d range=%d shape=%d hints=%d inv=%u", cfgname, T, K, range, shape, (int)hints, cfg.switch_inv);
        cur_desc = buf;
        cur_hist = h;
        Tree tree;
        std::vector<std::vector<char>> results(T);
        std::vector<std::function<void()>> clients;
        for (int t = 0; t < T; t++) {
            results[t].assign(seqs[t].size(), 0);
            clients.push_back([&, t]() {
                typename Tree::operation_hints oh;
                for (size_t i = 0; i < seqs[t].size(); i++) {
                    Key k = KG::make(seqs[t][i]);
                    bool r = hints ? tree.insert(k, oh) : tree.insert(k);
                    results[t][i] = r ? 1 : 0;
                }
            });
        }
        vs::run(cfg, clients);
        st.add("histories");
        st.add("steps", (long long)vs::steps());
        st.add("switches", (long long)vs::switches());
        st.schedules.insert(vs::schedule_hash());
        st.add("histories_with_overlap");
        st.add("inserts", (long long)T * K);

        // ---- model
        std::map<Key, int> trues;
        std::set<Key> model;
        for (int t = 0; t < T; t++)
            for (size_t i = 0; i < seqs[t].size(); i++) {
                Key k = KG::make(seqs[t][i]);
                model.insert(k);
                if (results[t][i]) trues[k]++;
            }
        std::string seqdump;
        auto wit = [&]() {
            if (seqdump.empty()) {
                seqdump = cur_desc + " seqs:";
                for (int t = 0; t < T; t++) {
                    seqdump += " T" + std::to_string(t) + ":";
                    for (size_t i = 0; i < seqs[t].size() && i < 40; i++) seqdump += " " + std::to_string(seqs[t][i]) + (results[t][i] ? "+" : "-");
                }
            }
            return seqdump.c_str();
        };
        for (auto& k : model) {
            int c = trues.count(k) ? trues[k] : 0;
            if (c != 1) {
                rep.viol(c == 0 ? "no-success-for-key" : "double-success-for-key", h, "key %s: insert reported success %d times | %s", KG::str(k).c_str(), c, wit());
                break;
            }
        }
        // iteration: strictly ascending and equal to the union
        std::vector<Key> content;
        bool asc = true;
        for (auto it = tree.begin(); it != tree.end(); ++it) {
            if (!content.empty() && !(content.back() < *it)) asc = false;
            content.push_back(*it);
            if (content.size() > model.size() + 8) break;
        }
        if (!asc) rep.viol("iteration-not-ascending", h, "iteration is not strictly ascending | %s", wit());
        std::vector<Key> want(model.begin(), model.end());
        if (content != want) {
            std::string miss;
            for (auto& k : want)
                if (!std::binary_search(content.begin(), content.end(), k) && miss.size() < 100) miss += KG::str(k) + " ";
            rep.viol("content-not-union", h, "tree holds %zu keys, union has %zu; missing: %s | %s", content.size(), want.size(), miss.c_str(), wit());
        }
        if (!tree.check()) rep.viol("check-failed", h, "btree::check() reports a broken structure | %s", wit());
        if (tree.size() != model.size()) rep.viol("size-wrong", h, "size()=%zu, model %zu | %s", (size_t)tree.size(), model.size(), wit());
        // queries
        typename Tree::operation_hints qh;
        for (int q = 0; q < 24; q++) {
            uint64_t v = rng.below((uint64_t)range * (shape == 4 ? T : 1) + 3);
            Key k = KG::make(v);
            bool useh = rng.chance(1, 2);
            bool in = model.count(k) > 0;
            bool c = useh ? tree.contains(k, qh) : tree.contains(k);
            if (c != in) rep.viol("contains-wrong", h, "contains(%s)=%d model %d | %s", KG::str(k).c_str(), (int)c, (int)in, wit());
            auto f = useh ? tree.find(k, qh) : tree.find(k);
            if ((f != tree.end()) != in || (in && !(*f == k))) rep.viol("find-wrong", h, "find(%s) disagrees with the model | %s", KG::str(k).c_str(), wit());
            auto lb = useh ? tree.lower_bound(k, qh) : tree.lower_bound(k);
            auto mlb = model.lower_bound(k);
            if ((lb == tree.end()) != (mlb == model.end()) || (lb != tree.end() && !(*lb == *mlb))) rep.viol("lower_bound-wrong", h, "lower_bound(%s) disagrees with the model | %s", KG::str(k).c_str(), wit());
            auto ub = useh ? tree.upper_bound(k, qh) : tree.upper_bound(k);
            auto mub = model.upper_bound(k);
            if ((ub == tree.end()) != (mub == model.end()) || (ub != tree.end() && !(*ub == *mub))) rep.viol("upper_bound-wrong", h, "upper_bound(%s) disagrees with the model | %s", KG::str(k).c_str(), wit());
        }
        // chunks: concatenation == content, no overlap
        for (int num : {1, 2, 3, 7, 50}) {
            auto chunks = tree.getChunks(num);
            std::vector<Key> cat;
            for (auto& ch : chunks)
                for (auto it = ch.begin(); it != ch.end(); ++it) {
                    cat.push_back(*it);
                    if (cat.size() > want.size() + 8) break;
                }
            if (cat != want) {
                rep.viol("chunks-wrong", h, "getChunks(%d): concatenated chunks list %zu keys, expected the %zu keys of the set in order | %s", num, cat.size(), want.size(), wit());
                break;
            }
        }
        if (rep.violations >= 20) break;
    }
    st.add("violations", rep.violations);
    for (auto& k : rep.keys) st.add("viol_" + k.first, k.second);
    st.print();
    return rep.violations ? 1 : 0;
}

}  // namespace

int main(int argc, char** argv) {
    hc::Args args(argc, argv);
    Params P;
    P.seed = args.num("seed", 1);
    P.first = args.num("first", 0);
    P.count = args.num("count", 1000);
    P.maxT = (int)args.num("threads", 3);
    P.maxK = (int)args.num("ops", 12);
    P.range = (int)args.num("range", 40);
    P.budget = args.num("budget", 3000000);
    P.fixed = args.has("fixed");
    int cfg = (int)args.num("cfg", 0);
    using T2 = std::array<RamDomain, 2>;
    using T3 = std::array<RamDomain, 3>;
    switch (cfg) {
        case 0: return run_cfg<btree_set<int, detail::comparator<int>, std::allocator<int>, 8>, int>(P, "int/3keys");
        case 1: return run_cfg<btree_set<int, detail::comparator<int>, std::allocator<int>, 40>, int>(P, "int/block40");
        case 2: return run_cfg<btree_set<T2, detail::comparator<T2>, std::allocator<T2>, 24>, T2>(P, "tuple2/3keys");
        case 3: return run_cfg<btree_set<T3>, T3>(P, "tuple3/default");
        case 4: return run_cfg<btree_set<int, detail::comparator<int>, std::allocator<int>, 8, detail::binary_search>, int>(P, "int/3keys/binary");
        case 5: return run_cfg<btree_set<int>, int>(P, "int/default");
    }
    fprintf(stderr, "unknown cfg\n");
    return 2;
}
