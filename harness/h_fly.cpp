// C31 harness: interning. mode fly: ConcurrentFlyweight<MutexConcurrentLanes, std::string> with explicit lanes (serial-schedulable);
// mode omp: SymbolTableImpl and SpecializedRecordTable through their public API inside OpenMP regions (free flavours only).
#include "hcommon.h"
#include "souffle/RamTypes.h"
#include "souffle/utility/StreamUtil.h"
#include "souffle/datastructure/ConcurrentFlyweight.h"
#include "souffle/datastructure/SymbolTableImpl.h"
#include "souffle/datastructure/RecordTableImpl.h"

#include <algorithm>
#include <set>
#include <omp.h>

using namespace souffle;

namespace {

struct Params {
    uint64_t seed;
    long long first, count;
    int maxT, maxK, range;
    uint64_t budget;
    bool fixed;
};

using Fly = ConcurrentFlyweight<MutexConcurrentLanes, std::string>;

struct Obs {
    std::string key;
    std::size_t index;
    bool inserted;
    bool fetch_ok;
};

int run_fly(const Params& P) {
    hc::Report rep;
    hc::Stats st;
    static long long cur_hist;
    static std::string cur_desc;
    vs::set_hang_handler([]() {
        printf("VIOL key=hang hist=%lld detail=step budget exhausted (findOrInsert does not terminate) | %s\n", cur_hist, cur_desc.c_str());
        fflush(stdout);
    });
    for (long long h = P.first; h < P.first + P.count; h++) {
        hc::Rng rng(hc::mix(P.seed, h));
        int lanes = 1 + (int)rng.below(vs::is_serial() ? 3 : 8);
        int Tn = P.fixed ? P.maxT : 2 + (int)rng.below(P.maxT - 1);
        int K = P.fixed ? P.maxK : 1 + (int)rng.below(P.maxK);
        int cap = 1 + (int)rng.below(8);
        bool reserve = rng.chance(1, 2);
        int npool = 1 + (int)rng.below((uint64_t)P.range);
        std::vector<std::string> pool;
        for (int i = 0; i < npool; i++) pool.push_back(rng.chance(1, 10) ? std::string() : "k" + std::to_string(rng.below(1000)) + std::string(rng.below(4), 'x'));
        std::vector<std::vector<std::string>> seqs(Tn);
        for (int t = 0; t < Tn; t++)
            for (int k = 0; k < K; k++) seqs[t].push_back(pool[rng.below(pool.size())]);
        char buf[160];
        snprintf(buf, sizeof buf, "lanes=%d T=%d K=%d initial-capacity=%d reserve-first=%d pool=%d", lanes, Tn, K, cap, (int)reserve, npool);
        cur_desc = buf;
        cur_hist = h;
        Fly fly((std::size_t)lanes, (std::size_t)cap, reserve);
        std::vector<std::vector<Obs>> obs(Tn);
        std::vector<std::function<void()>> clients;
        for (int t = 0; t < Tn; t++) {
            clients.push_back([&, t]() {
                const Fly::lane_id lane = (Fly::lane_id)(t % lanes);     // several threads may share a lane: its mutex arbitrates
                for (auto& k : seqs[t]) {
                    auto r = fly.findOrInsert(lane, k);
                    bool ok = fly.fetch(lane, r.first) == k;             // decode right after the call returns
                    obs[t].push_back(Obs{k, r.first, r.second, ok});
                }
            });
        }
        static const uint32_t invs[] = {2, 4, 8, 16, 32, 64, 128, 256};
        vs::Config cfg;
        cfg.seed = hc::mix(P.seed ^ 0xf1e1, h);
        cfg.switch_inv = invs[rng.below(8)];
        cfg.step_budget = P.budget;
        vs::run(cfg, clients);
        st.add("histories");
        st.add("histories_with_overlap");
        st.add("steps", (long long)vs::steps());
        st.schedules.insert(vs::schedule_hash());
        st.add("calls", (long long)Tn * K);
        std::string dump;
        auto wit = [&]() {
            if (dump.empty()) {
                dump = cur_desc + " seqs:";
                for (int t = 0; t < Tn; t++) {
                    dump += " T" + std::to_string(t) + ":";
                    for (size_t i = 0; i < obs[t].size() && i < 20; i++) dump += " '" + obs[t][i].key + "'->" + std::to_string(obs[t][i].index) + (obs[t][i].inserted ? "+" : "");
                }
            }
            return dump.c_str();
        };
        std::map<std::string, std::set<std::size_t>> k2i;
        std::map<std::size_t, std::set<std::string>> i2k;
        std::map<std::string, int> inserted;
        for (int t = 0; t < Tn; t++)
            for (auto& o : obs[t]) {
                k2i[o.key].insert(o.index);
                i2k[o.index].insert(o.key);
                if (o.inserted) inserted[o.key]++;
                if (!o.fetch_ok) rep.viol("fetch-after-call-wrong", h, "fetch(%zu) right after findOrInsert('%s') returned another key | %s", o.index, o.key.c_str(), wit());
                if (reserve && o.index == 0) rep.viol("reserved-index-returned", h, "index 0 (reserved, the nil record) returned for '%s' | %s", o.key.c_str(), wit());
            }
        for (auto& kv : k2i)
            if (kv.second.size() != 1) {
                rep.viol("one-value-two-references", h, "'%s' got %zu different indexes | %s", kv.first.c_str(), kv.second.size(), wit());
                break;
            }
        for (auto& kv : i2k)
            if (kv.second.size() != 1) {
                rep.viol("one-reference-two-values", h, "index %zu stands for %zu different keys | %s", kv.first, kv.second.size(), wit());
                break;
            }
        for (auto& kv : k2i) {
            int c = inserted.count(kv.first) ? inserted[kv.first] : 0;
            if (c != 1) {
                rep.viol(c == 0 ? "never-reported-new" : "reported-new-twice", h, "'%s': inserted==true %d times | %s", kv.first.c_str(), c, wit());
                break;
            }
        }
        // after quiescence: fetch and iteration
        for (auto& kv : k2i)
            if (fly.fetch(0, *kv.second.begin()) != kv.first) {
                rep.viol("fetch-after-growth-wrong", h, "fetch(%zu) != '%s' after quiescence | %s", *kv.second.begin(), kv.first.c_str(), wit());
                break;
            }
        std::multiset<std::pair<std::string, std::size_t>> got, want;
        size_t n = 0;
        for (auto it = fly.begin(0); it != fly.end(); ++it) {
            got.insert({it->first, it->second});
            if (++n > k2i.size() + 8) break;
        }
        for (auto& kv : k2i) want.insert({kv.first, *kv.second.begin()});
        if (got != want) rep.viol("iteration-wrong", h, "iteration lists %zu entries, %zu values were interned | %s", got.size(), want.size(), wit());
        if (rep.violations >= 20) break;
    }
    st.add("violations", rep.violations);
    for (auto& k : rep.keys) st.add("viol_" + k.first, k.second);
    st.print();
    return rep.violations ? 1 : 0;
}

// SymbolTableImpl / RecordTable inside OpenMP regions (real threads only)
int run_omp(const Params& P) {
    hc::Report rep;
    hc::Stats st;
    for (long long h = P.first; h < P.first + P.count; h++) {
        hc::Rng rng(hc::mix(P.seed, h));
        int Tn = 2 + (int)rng.below(P.maxT - 1);
        int K = 1 + (int)rng.below(P.maxK);
        int npool = 1 + (int)rng.below((uint64_t)P.range);
        std::vector<std::string> pool;
        for (int i = 0; i < npool; i++) pool.push_back(rng.chance(1, 12) ? std::string() : "s" + std::to_string(rng.below(100000)));
        // records: arity 0..6 over small values
        std::vector<std::vector<RamDomain>> rpool;
        for (int i = 0; i < npool; i++) {
            std::vector<RamDomain> r(rng.below(7));
            for (auto& x : r) x = (RamDomain)rng.below(4) - 1;
            rpool.push_back(r);
        }
        omp_set_num_threads(Tn);
        SymbolTableImpl symtab((std::size_t)Tn);
        SpecializedRecordTable<0, 1, 2, 3> rectab((std::size_t)Tn);     // arities 4-6 use the generic maps (creation race)
        struct SObs {
            int key;
            RamDomain ref;
            bool ok;
        };
        std::vector<std::vector<SObs>> sobs(Tn), robs(Tn);
        std::vector<uint64_t> seeds(Tn);
        for (auto& s : seeds) s = rng.next();
#pragma omp parallel num_threads(Tn)
        {
            int t = omp_get_thread_num();
            hc::Rng trng(seeds[t]);
            for (int k = 0; k < K; k++) {
                int i = (int)trng.below(pool.size());
                RamDomain ref = symtab.encode(pool[i]);
                bool ok = symtab.decode(ref) == pool[i];
                sobs[t].push_back(SObs{i, ref, ok});
                int j = (int)trng.below(rpool.size());
                RamDomain rr = rectab.pack(rpool[j].data(), rpool[j].size());
                const RamDomain* back = rectab.unpack(rr, rpool[j].size());
                bool rok = true;
                for (size_t c = 0; c < rpool[j].size(); c++) rok = rok && back[c] == rpool[j][c];
                robs[t].push_back(SObs{j, rr, rok});
            }
        }
        st.add("histories");
        st.add("histories_with_overlap");
        st.add("calls", (long long)Tn * K * 2);
        char buf[120];
        snprintf(buf, sizeof buf, "omp T=%d K=%d pool=%d", Tn, K, npool);
        std::string desc = buf;
        // symbols: bijection value <-> reference
        std::map<std::string, std::set<RamDomain>> k2i;
        std::map<RamDomain, std::set<std::string>> i2k;
        for (int t = 0; t < Tn; t++)
            for (auto& o : sobs[t]) {
                k2i[pool[o.key]].insert(o.ref);
                i2k[o.ref].insert(pool[o.key]);
                if (!o.ok) rep.viol("decode-after-encode-wrong", h, "decode(encode('%s')) returned another string | %s", pool[o.key].c_str(), desc.c_str());
            }
        for (auto& kv : k2i)
            if (kv.second.size() != 1) {
                rep.viol("symbol-two-references", h, "'%s' got %zu references | %s", kv.first.c_str(), kv.second.size(), desc.c_str());
                break;
            }
        for (auto& kv : i2k)
            if (kv.second.size() != 1) {
                rep.viol("reference-two-symbols", h, "reference %d stands for %zu symbols | %s", kv.first, kv.second.size(), desc.c_str());
                break;
            }
        std::multiset<std::string> listed, wanted;
        size_t n = 0;
        for (auto it = symtab.begin(); it != symtab.end(); ++it) {
            listed.insert(it->first);
            if (++n > k2i.size() + 8) break;
        }
        for (auto& kv : k2i) wanted.insert(kv.first);
        if (listed != wanted) rep.viol("symbol-iteration-wrong", h, "iteration lists %zu symbols, %zu were interned | %s", listed.size(), wanted.size(), desc.c_str());
        for (auto& kv : k2i)
            if (symtab.decode(*kv.second.begin()) != kv.first) {
                rep.viol("decode-after-growth-wrong", h, "decode(%d) != '%s' after quiescence | %s", *kv.second.begin(), kv.first.c_str(), desc.c_str());
                break;
            }
        // records: per arity bijection; nil (0) never returned for a real record (arity > 0)
        std::map<std::vector<RamDomain>, std::set<RamDomain>> r2i;
        std::map<std::pair<size_t, RamDomain>, std::set<std::vector<RamDomain>>> i2r;
        for (int t = 0; t < Tn; t++)
            for (auto& o : robs[t]) {
                r2i[rpool[o.key]].insert(o.ref);
                i2r[{rpool[o.key].size(), o.ref}].insert(rpool[o.key]);
                if (!o.ok) rep.viol("unpack-after-pack-wrong", h, "unpack(pack(r)) returned other fields (arity %zu) | %s", rpool[o.key].size(), desc.c_str());
                if (o.ref == 0 && !rpool[o.key].empty()) rep.viol("nil-for-real-record", h, "pack returned the nil reference for a record of arity %zu | %s", rpool[o.key].size(), desc.c_str());
            }
        for (auto& kv : r2i)
            if (kv.second.size() != 1) {
                rep.viol("record-two-references", h, "one record (arity %zu) got %zu references | %s", kv.first.size(), kv.second.size(), desc.c_str());
                break;
            }
        for (auto& kv : i2r)
            if (kv.second.size() != 1) {
                rep.viol("reference-two-records", h, "reference %d (arity %zu) stands for %zu records | %s", kv.first.second, kv.first.first, kv.second.size(), desc.c_str());
                break;
            }
        if (rep.violations >= 20) break;
    }
    st.add("violations", rep.violations);
    for (auto& k : rep.keys) st.add("viol_" + k.first, k.second);
    st.print();
    return rep.violations ? 1 : 0;
}

}  // namespace

int main(int argc, char** argv) {
    hc::Args args(argc, argv);
    Params P;
    P.seed = args.num("seed", 1);
    P.first = args.num("first", 0);
    P.count = args.num("count", 1000);
    P.maxT = (int)args.num("threads", 3);
    P.maxK = (int)args.num("ops", 10);
    P.range = (int)args.num("range", 12);
    P.budget = args.num("budget", 4000000);
    P.fixed = args.has("fixed");
    if (args.str("mode", "fly") == "omp") return run_omp(P);
    return run_fly(P);
}
