// Free-running runtime: real threads, real parallelism. The same compiler-inserted
// callbacks draw from a per-thread PRNG and occasionally yield or spin, which perturbs the
// OS schedule without adding any happens-before edge between client threads (no shared
// state is touched in the callbacks), so ThreadSanitizer still sees the code's own ordering.
#include "vsched.h"

#include <atomic>
#include <cstdio>
#include <cstdlib>
#include <pthread.h>
#include <sched.h>
#include <thread>
#include <unistd.h>

namespace {

thread_local int tl_id = -1;
thread_local uint64_t tl_rng = 0;
thread_local uint64_t tl_points = 0;
uint32_t g_inv = 64;
std::atomic<uint64_t> g_points{0};

uint32_t* g_guard_start = nullptr;
uint32_t* g_guard_stop = nullptr;
std::atomic<uint8_t>* g_hit = nullptr;
std::atomic<size_t> g_edges_hit{0};

inline void perturb() {
    if (tl_id < 0) return;
    ++tl_points;
    uint64_t x = tl_rng;
    x ^= x << 13;
    x ^= x >> 7;
    x ^= x << 17;
    tl_rng = x;
    if ((x >> 33) % g_inv != 0) return;
    if (x & 1) {
        sched_yield();
    } else {
        volatile unsigned spin = (unsigned)((x >> 8) & 0xff);
        while (spin > 0) spin = spin - 1;
    }
}

}  // namespace

namespace vs {

bool is_serial() {
    return false;
}

bool run(const Config& cfg, const std::vector<std::function<void()>>& clients) {
    g_inv = cfg.switch_inv ? cfg.switch_inv : 1;
    std::vector<std::thread> th;
    std::atomic<int> ready{0};
    int n = (int)clients.size();
    for (int i = 0; i < n; i++) {
        th.emplace_back([&, i]() {
            tl_rng = (cfg.seed + 1) * 0x9E3779B97F4A7C15ULL ^ ((uint64_t)(i + 1) * 0xBF58476D1CE4E5B9ULL);
            if (tl_rng == 0) tl_rng = 1;
            tl_points = 0;
            ready.fetch_add(1);
            while (ready.load() < n) {
            }
            tl_id = i;
            clients[i]();
            tl_id = -1;
            g_points.fetch_add(tl_points, std::memory_order_relaxed);
        });
    }
    for (auto& t : th) t.join();
    return true;
}

void atomic_begin() {}
void atomic_end() {}
uint64_t now() {
    // one sequentially consistent counter: stamps are consistent with real time order.
    // (It synchronises the callers, so ThreadSanitizer flavours of the harnesses do not call it.)
    static std::atomic<uint64_t> clock{0};
    return clock.fetch_add(1) + 1;
}
int self() {
    return tl_id;
}
uint64_t steps() {
    return g_points.load();
}
uint64_t switches() {
    return 0;
}
uint64_t schedule_hash() {
    return 0;
}
size_t edges_total() {
    return g_guard_stop - g_guard_start;
}
size_t edges_hit() {
    return g_edges_hit.load();
}
uint64_t edge_hits(size_t) {
    return 0;
}
void set_step_hook(void (*)()) {}
void set_hang_handler(void (*)()) {}
void point() {
    perturb();
}

}  // namespace vs

extern "C" {

void __sanitizer_cov_trace_pc_guard_init(uint32_t* start, uint32_t* stop) {
    if (start == stop || *start) return;
    g_guard_start = start;
    g_guard_stop = stop;
    uint32_t n = 0;
    for (uint32_t* x = start; x < stop; x++) *x = ++n;
    g_hit = new std::atomic<uint8_t>[n + 1];
    for (uint32_t i = 0; i <= n; i++) g_hit[i].store(0, std::memory_order_relaxed);
}

void __sanitizer_cov_trace_pc_guard(uint32_t* guard) {
    if (tl_id < 0) return;
    uint32_t g = *guard;
    if (g && g_hit && g_hit[g].load(std::memory_order_relaxed) == 0) {
        if (g_hit[g].exchange(1, std::memory_order_relaxed) == 0) g_edges_hit.fetch_add(1, std::memory_order_relaxed);
    }
    perturb();
}

#define VS_CB(name, T) \
    void name(T* addr) { (void)addr; perturb(); }
VS_CB(__sanitizer_cov_load1, uint8_t)
VS_CB(__sanitizer_cov_load2, uint16_t)
VS_CB(__sanitizer_cov_load4, uint32_t)
VS_CB(__sanitizer_cov_load8, uint64_t)
VS_CB(__sanitizer_cov_load16, __uint128_t)
VS_CB(__sanitizer_cov_store1, uint8_t)
VS_CB(__sanitizer_cov_store2, uint16_t)
VS_CB(__sanitizer_cov_store4, uint32_t)
VS_CB(__sanitizer_cov_store8, uint64_t)
VS_CB(__sanitizer_cov_store16, __uint128_t)
#undef VS_CB
}
