// C26 harness: souffle::btree_delete_set - model-based sequential histories of insert / erase(key) / erase(iterator) / queries,
// and phases insert(parallel) -> erase(sequential) -> insert(parallel).
#include "hcommon.h"
#include "souffle/RamTypes.h"
#include "souffle/utility/StreamUtil.h"
#include "souffle/datastructure/BTreeDelete.h"

#include <algorithm>
#include <array>
#include <set>

using namespace souffle;

namespace {

struct Params {
    uint64_t seed;
    long long first, count;
    int maxT, maxK, range;
    uint64_t budget;
    bool fixed;
};

template <typename Tree, typename Key, typename MK>
bool same_content(Tree& tree, const std::set<Key>& model, hc::Report& rep, long long h, const char* when, const std::string& desc, MK str) {
    std::vector<Key> content;
    bool asc = true;
    for (auto it = tree.begin(); it != tree.end(); ++it) {
        if (!content.empty() && !(content.back() < *it)) asc = false;
        content.push_back(*it);
        if (content.size() > model.size() + 8) break;
    }
    bool ok = true;
    if (!asc) {
        rep.viol("iteration-not-ascending", h, "%s: iteration is not strictly ascending | %s", when, desc.c_str());
        ok = false;
    }
    std::vector<Key> want(model.begin(), model.end());
    if (content != want) {
        std::string miss, extra;
        for (auto& k : want)
            if (!std::binary_search(content.begin(), content.end(), k) && miss.size() < 80) miss += str(k) + " ";
        for (auto& k : content)
            if (!model.count(k) && extra.size() < 80) extra += str(k) + " ";
        rep.viol("content-differs-from-model", h, "%s: tree holds %zu keys, model %zu; missing: %s extra: %s | %s", when, content.size(), want.size(), miss.c_str(), extra.c_str(), desc.c_str());
        ok = false;
    }
    if (tree.size() != model.size()) {
        rep.viol("size-wrong", h, "%s: size()=%zu, model %zu | %s", when, (size_t)tree.size(), model.size(), desc.c_str());
        ok = false;
    }
    if (tree.empty() != model.empty()) {
        rep.viol("empty-wrong", h, "%s: empty() disagrees with the model | %s", when, desc.c_str());
        ok = false;
    }
    if (!tree.check()) {
        rep.viol("check-failed", h, "%s: check() reports a broken structure | %s", when, desc.c_str());
        ok = false;
    }
    return ok;
}

template <typename Tree>
int run_cfg(const Params& P, const char* cfgname) {
    using Key = int;
    auto str = [](int k) { return std::to_string(k); };
    hc::Report rep;
    hc::Stats st;
    static long long cur_hist;
    static std::string cur_desc;
    vs::set_hang_handler([]() {
        printf("VIOL key=hang hist=%lld detail=step budget exhausted | %s\n", cur_hist, cur_desc.c_str());
        fflush(stdout);
    });
    for (long long h = P.first; h < P.first + P.count; h++) {
        hc::Rng rng(hc::mix(P.seed, h));
        int range = rng.chance(1, 5) ? 1000000 + (int)rng.below(2000000000) : 2 + (int)rng.below(P.range);
        int nops = P.fixed ? P.maxK : 1 + (int)rng.below(P.maxK);
        bool concurrent = rng.chance(1, 3) && vs::is_serial() ? true : rng.chance(1, 3);
        char buf[160];
        snprintf(buf, sizeof buf, "cfg=%s ops=%d range=%d concurrent-phases=%d", cfgname, nops, range, (int)concurrent);
        cur_desc = buf;
        cur_hist = h;
        Tree tree;
        std::set<Key> model;
        std::string trace;
        auto note = [&](const char* op, long long k, long long r) {
            if (trace.size() < 900) trace += std::string(" ") + op + "(" + std::to_string(k) + ")=" + std::to_string(r);
        };
        auto key = [&]() { return (Key)(rng.below(range)) - (rng.chance(1, 4) ? range / 2 : 0); };
        bool bad = false;
        int phase_count = concurrent ? 3 : 1;
        for (int phase = 0; phase < phase_count && !bad; phase++) {
            if (concurrent && (phase == 0 || phase == 2)) {
                // parallel insertion phase
                int Tn = 2 + (int)rng.below(P.maxT - 1);
                std::vector<std::vector<Key>> seqs(Tn);
                for (int t = 0; t < Tn; t++)
                    for (int k = 0; k < 1 + (int)rng.below(10); k++) seqs[t].push_back(key());
                std::vector<std::vector<char>> results(Tn);
                std::vector<std::function<void()>> clients;
                bool hints = rng.chance(1, 2);
                for (int t = 0; t < Tn; t++) {
                    results[t].assign(seqs[t].size(), 0);
                    clients.push_back([&, t]() {
                        typename Tree::operation_hints oh;
                        for (size_t i = 0; i < seqs[t].size(); i++) results[t][i] = (hints ? tree.insert(seqs[t][i], oh) : tree.insert(seqs[t][i])) ? 1 : 0;
                    });
                }
                vs::Config cfg;
                static const uint32_t invs[] = {2, 4, 8, 16, 32, 64, 128, 256};
                cfg.seed = hc::mix(P.seed ^ 0xde1e7e, h * 4 + phase);
                cfg.switch_inv = invs[rng.below(8)];
                cfg.step_budget = P.budget;
                vs::run(cfg, clients);
                st.schedules.insert(vs::schedule_hash());
                st.add("parallel_insert_phases");
                st.add("steps", (long long)vs::steps());
                std::map<Key, int> trues;
                std::set<Key> fresh;
                for (int t = 0; t < Tn; t++)
                    for (size_t i = 0; i < seqs[t].size(); i++) {
                        if (!model.count(seqs[t][i])) fresh.insert(seqs[t][i]);
                        if (results[t][i]) trues[seqs[t][i]]++;
                        note("pins", seqs[t][i], results[t][i]);
                    }
                for (auto& kv : trues)
                    if (kv.second != 1 || !fresh.count(kv.first)) {
                        rep.viol("parallel-insert-success-count", h, "key %d: %d successes (present before: %d) | %s |%s", kv.first, kv.second, (int)!fresh.count(kv.first), cur_desc.c_str(), trace.c_str());
                        bad = true;
                    }
                for (auto& k : fresh)
                    if (!trues.count(k)) {
                        rep.viol("parallel-insert-no-success", h, "new key %d: no insert reported success | %s |%s", k, cur_desc.c_str(), trace.c_str());
                        bad = true;
                    }
                model.insert(fresh.begin(), fresh.end());
                if (!same_content(tree, model, rep, h, "after a parallel insert phase", cur_desc + " |" + trace, str)) bad = true;
                continue;
            }
            // sequential mixed phase
            // operation hints cache leaf nodes: they are only valid as long as nothing is erased (souffle creates fresh hints per
            // query and erases in separate statements), so the harness starts new hints after every erase / clear
            typename Tree::operation_hints oh;
            auto fresh_hints = [&]() { oh = typename Tree::operation_hints(); };
            for (int i = 0; i < nops && !bad; i++) {
                int op = (int)rng.below(100);
                Key k = (!model.empty() && rng.chance(1, 2)) ? *std::next(model.begin(), (long)rng.below(model.size())) : key();
                if (op < 40) {
                    bool r = rng.chance(1, 2) ? tree.insert(k, oh) : tree.insert(k);
                    bool m = model.insert(k).second;
                    note("ins", k, r);
                    if (r != m) {
                        rep.viol("insert-result-wrong", h, "insert(%d)=%d, model says %d | %s |%s", k, (int)r, (int)m, cur_desc.c_str(), trace.c_str());
                        bad = true;
                    }
                } else if (op < 65) {
                    auto r = tree.erase(k);
                    fresh_hints();
                    auto m = model.erase(k);
                    note("del", k, (long long)r);
                    if (r != m) {
                        rep.viol("erase-result-wrong", h, "erase(%d)=%zu, model says %zu | %s |%s", k, (size_t)r, (size_t)m, cur_desc.c_str(), trace.c_str());
                        bad = true;
                    }
                } else if (op < 75) {
                    auto it = tree.find(k);
                    bool in = model.count(k) > 0;
                    if ((it != tree.end()) != in) {
                        rep.viol("find-wrong", h, "find(%d) disagrees with the model | %s |%s", k, cur_desc.c_str(), trace.c_str());
                        bad = true;
                    } else if (in) {
                        // erase through the iterator: it must advance to the successor
                        auto succ = model.upper_bound(k);
                        tree.erase(it);
                        fresh_hints();
                        model.erase(k);
                        note("deli", k, 1);
                        if ((it == tree.end()) != (succ == model.end()) || (it != tree.end() && *it != *succ)) {
                            rep.viol("erase-iterator-not-advanced", h, "erase(iterator at %d) does not leave the iterator at the successor | %s |%s", k, cur_desc.c_str(), trace.c_str());
                            bad = true;
                        }
                    }
                } else if (op < 82) {
                    bool c = rng.chance(1, 2) ? tree.contains(k, oh) : tree.contains(k);
                    if (c != (model.count(k) > 0)) {
                        rep.viol("contains-wrong", h, "contains(%d)=%d | %s |%s", k, (int)c, cur_desc.c_str(), trace.c_str());
                        bad = true;
                    }
                } else if (op < 90) {
                    auto lb = tree.lower_bound(k);
                    auto mlb = model.lower_bound(k);
                    auto ub = tree.upper_bound(k);
                    auto mub = model.upper_bound(k);
                    if ((lb == tree.end()) != (mlb == model.end()) || (lb != tree.end() && *lb != *mlb) || (ub == tree.end()) != (mub == model.end()) || (ub != tree.end() && *ub != *mub)) {
                        rep.viol("bounds-wrong", h, "lower/upper_bound(%d) disagree with the model | %s |%s", k, cur_desc.c_str(), trace.c_str());
                        bad = true;
                    }
                } else if (op < 97) {
                    if (!same_content(tree, model, rep, h, "mid-history", cur_desc + " |" + trace, str)) bad = true;
                } else {
                    tree.clear();
                    fresh_hints();
                    model.clear();
                    note("clear", 0, 0);
                }
                st.add("sequential_ops");
            }
            if (!bad && !same_content(tree, model, rep, h, "end of sequential phase", cur_desc + " |" + trace, str)) bad = true;
        }
        st.add("histories");
        st.add("histories_with_overlap");
        if (rep.violations >= 20) break;
    }
    st.add("violations", rep.violations);
    for (auto& k : rep.keys) st.add("viol_" + k.first, k.second);
    st.print();
    return rep.violations ? 1 : 0;
}

}  // namespace

int main(int argc, char** argv) {
    hc::Args args(argc, argv);
    Params P;
    P.seed = args.num("seed", 1);
    P.first = args.num("first", 0);
    P.count = args.num("count", 1000);
    P.maxT = (int)args.num("threads", 3);
    P.maxK = (int)args.num("ops", 200);
    P.range = (int)args.num("range", 60);
    P.budget = args.num("budget", 4000000);
    P.fixed = args.has("fixed");
    switch ((int)args.num("cfg", 0)) {
        case 0: return run_cfg<btree_delete_set<int, detail::comparator<int>, std::allocator<int>, 8>>(P, "int/3keys");
        case 1: return run_cfg<btree_delete_set<int, detail::comparator<int>, std::allocator<int>, 8, detail::binary_search>>(P, "int/3keys/binary");
        case 2: return run_cfg<btree_delete_set<int, detail::comparator<int>, std::allocator<int>, 64>>(P, "int/block64");
        case 3: return run_cfg<btree_delete_set<int>>(P, "int/default");
    }
    fprintf(stderr, "unknown cfg\n");
    return 2;
}
