// C28 harness: souffle::EquivalenceRelation - histories of insert / insertAll / extendAndInsert (with parallel insert phases)
// checked against a closure model.
#include "hcommon.h"
#include "souffle/RamTypes.h"
#include "souffle/utility/StreamUtil.h"
#include "souffle/datastructure/EquivalenceRelation.h"

#include <algorithm>
#include <array>
#include <set>

using namespace souffle;

namespace {

using Tup = std::array<RamDomain, 2>;
using ER = EquivalenceRelation<Tup>;

struct Model {
    std::map<RamDomain, RamDomain> parent;
    RamDomain find(RamDomain x) {
        if (!parent.count(x)) parent[x] = x;
        while (parent[x] != x) {
            parent[x] = parent[parent[x]];
            x = parent[x];
        }
        return x;
    }
    void unite(RamDomain a, RamDomain b) {
        RamDomain ra = find(a), rb = find(b);
        if (ra != rb) parent[ra] = rb;
    }
    bool has(RamDomain x) const { return parent.count(x) > 0; }
    bool rel(RamDomain a, RamDomain b) { return has(a) && has(b) && find(a) == find(b); }
    std::vector<RamDomain> elems() const {
        std::vector<RamDomain> v;
        for (auto& kv : parent) v.push_back(kv.first);
        return v;
    }
    std::set<Tup> pairs() {
        std::set<Tup> out;
        auto es = elems();
        for (auto a : es)
            for (auto b : es)
                if (find(a) == find(b)) out.insert(Tup{a, b});
        return out;
    }
};

struct Params {
    uint64_t seed;
    long long first, count;
    int maxT, maxK, range;
    uint64_t budget;
    bool fixed;
};

static RamDomain pick(hc::Rng& rng, int range, bool extremes) {
    if (extremes && rng.chance(1, 5)) {
        static const RamDomain sp[] = {0, -1, 1, 0x7fffffff, (RamDomain)0x80000000, (RamDomain)0x80000001, 0x7ffffffe, 65536, -65536, 1000000007};
        return sp[rng.below(sizeof(sp) / sizeof(sp[0]))];
    }
    return (RamDomain)rng.below(range) - (rng.chance(1, 6) ? range / 2 : 0);
}

bool compare(ER& r, Model& m, hc::Report& rep, long long h, const char* when, const std::string& desc, hc::Rng& rng) {
    bool ok = true;
    std::set<Tup> want = m.pairs();
    auto collect = [&](auto&& range_begin, auto&& range_end, std::multiset<Tup>& got, size_t cap) {
        size_t n = 0;
        for (auto it = range_begin; it != range_end; ++it) {
            got.insert(*it);
            if (++n > cap) break;
        }
    };
    std::multiset<Tup> wantm(want.begin(), want.end());
    {
        std::multiset<Tup> got;
        collect(r.begin(), r.end(), got, want.size() + 16);
        if (got != wantm) {
            rep.viol("iteration-differs-from-closure", h, "%s: full iteration lists %zu pairs, the closure has %zu | %s", when, got.size(), want.size(), desc.c_str());
            ok = false;
        }
    }
    if (r.size() != want.size()) {
        rep.viol("size-wrong", h, "%s: size()=%zu, sum of squared class sizes %zu | %s", when, (size_t)r.size(), want.size(), desc.c_str());
        ok = false;
    }
    auto es = m.elems();
    for (int q = 0; q < 16 && ok; q++) {
        RamDomain a = (!es.empty() && rng.chance(3, 4)) ? es[rng.below(es.size())] : pick(rng, 50, true);
        RamDomain b = (!es.empty() && rng.chance(3, 4)) ? es[rng.below(es.size())] : pick(rng, 50, true);
        bool c = r.contains(a, b);
        if (c != m.rel(a, b)) {
            rep.viol("contains-wrong", h, "%s: contains(%d,%d)=%d, closure says %d | %s", when, a, b, (int)c, (int)m.rel(a, b), desc.c_str());
            ok = false;
        }
        if (m.has(a)) {
            std::multiset<Tup> got, exp;
            auto it = r.anteriorIt(a);
            collect(it, r.end(), got, want.size() + 16);
            for (auto& p : want)
                if (p[0] == a) exp.insert(p);
            if (got != exp) {
                rep.viol("per-element-iteration-wrong", h, "%s: anteriorIt(%d) lists %zu pairs, expected %zu | %s", when, a, got.size(), exp.size(), desc.c_str());
                ok = false;
            }
            auto b1 = r.template getBoundaries<1>(Tup{a, 0});
            std::multiset<Tup> got1;
            collect(b1.begin(), b1.end(), got1, want.size() + 16);
            if (got1 != exp) {
                rep.viol("prefix-range-wrong", h, "%s: getBoundaries<1>(%d,_) lists %zu pairs, expected %zu | %s", when, a, got1.size(), exp.size(), desc.c_str());
                ok = false;
            }
        }
        if (m.rel(a, b)) {
            std::multiset<Tup> got;
            auto it = r.antpostit(a, b);
            collect(it, r.end(), got, 4);
            if (got != std::multiset<Tup>{Tup{a, b}}) {
                rep.viol("per-pair-iteration-wrong", h, "%s: antpostit(%d,%d) lists %zu pairs | %s", when, a, b, got.size(), desc.c_str());
                ok = false;
            }
        }
        auto b2 = r.template getBoundaries<2>(Tup{a, b});
        std::multiset<Tup> got2;
        collect(b2.begin(), b2.end(), got2, 4);
        std::multiset<Tup> exp2;
        if (m.rel(a, b)) exp2.insert(Tup{a, b});
        if (got2 != exp2) {
            rep.viol("point-range-wrong", h, "%s: getBoundaries<2>(%d,%d) lists %zu pairs, expected %zu | %s", when, a, b, got2.size(), exp2.size(), desc.c_str());
            ok = false;
        }
    }
    for (size_t chunks : {1u, 2u, 3u, 7u, 400u}) {
        if (!ok) break;
        std::multiset<Tup> got;
        size_t n = 0;
        for (auto& rg : r.partition(chunks))
            for (auto it = rg.begin(); it != rg.end(); ++it) {
                got.insert(*it);
                if (++n > want.size() + 16) break;
            }
        if (got != wantm) {
            rep.viol("partition-wrong", h, "%s: partition(%zu) lists %zu pairs, expected each of the %zu pairs exactly once | %s", when, chunks, got.size(), want.size(), desc.c_str());
            ok = false;
        }
    }
    return ok;
}

int run(const Params& P) {
    hc::Report rep;
    hc::Stats st;
    static long long cur_hist;
    static std::string cur_desc;
    vs::set_hang_handler([]() {
        printf("VIOL key=hang hist=%lld detail=step budget exhausted (an operation does not terminate) | %s\n", cur_hist, cur_desc.c_str());
        fflush(stdout);
    });
    for (long long h = P.first; h < P.first + P.count; h++) {
        hc::Rng rng(hc::mix(P.seed, h));
        int range = 2 + (int)rng.below(P.range);
        bool extremes = rng.chance(1, 3);
        int nops = P.fixed ? P.maxK : 1 + (int)rng.below(P.maxK);
        ER rel[2];
        Model mod[2];
        std::string trace;
        auto note = [&](const std::string& s) {
            if (trace.size() < 1000) trace += " " + s;
        };
        char buf[120];
        snprintf(buf, sizeof buf, "ops=%d range=%d extremes=%d", nops, range, (int)extremes);
        cur_desc = buf;
        cur_hist = h;
        bool bad = false;
        for (int i = 0; i < nops && !bad; i++) {
            int op = (int)rng.below(100);
            int w = (int)rng.below(2);
            if (op < 45) {
                RamDomain a = pick(rng, range, extremes), b = pick(rng, range, extremes);
                bool was = mod[w].rel(a, b);
                bool r = rel[w].insert(a, b);
                mod[w].unite(a, b);
                note("R" + std::to_string(w) + ".ins(" + std::to_string(a) + "," + std::to_string(b) + ")");
                if (r == was) {
                    rep.viol("insert-result-wrong", h, "insert(%d,%d) returned %d although the pair was %s | %s |%s", a, b, (int)r, was ? "present" : "absent", cur_desc.c_str(), trace.c_str());
                    bad = true;
                }
            } else if (op < 60) {
                // parallel insert phase on one relation
                int Tn = 2 + (int)rng.below(P.maxT - 1);
                std::vector<std::vector<Tup>> seqs(Tn);
                for (int t = 0; t < Tn; t++)
                    for (int k = 0; k < 1 + (int)rng.below(6); k++) seqs[t].push_back(Tup{pick(rng, range, extremes), pick(rng, range, extremes)});
                std::vector<std::function<void()>> clients;
                for (int t = 0; t < Tn; t++)
                    clients.push_back([&, t]() {
                        for (auto& p : seqs[t]) rel[w].insert(p[0], p[1]);
                    });
                vs::Config cfg;
                static const uint32_t invs[] = {2, 4, 8, 16, 32, 64, 128, 256};
                cfg.seed = hc::mix(P.seed ^ 0xe91e1, h * 64 + i);
                cfg.switch_inv = invs[rng.below(8)];
                cfg.step_budget = P.budget;
                vs::run(cfg, clients);
                st.schedules.insert(vs::schedule_hash());
                st.add("parallel_insert_phases");
                st.add("steps", (long long)vs::steps());
                for (int t = 0; t < Tn; t++)
                    for (auto& p : seqs[t]) {
                        mod[w].unite(p[0], p[1]);
                        note("R" + std::to_string(w) + ".pins(" + std::to_string(p[0]) + "," + std::to_string(p[1]) + ")");
                    }
            } else if (op < 70) {
                rel[w].insertAll(rel[1 - w]);
                for (auto& p : mod[1 - w].pairs()) mod[w].unite(p[0], p[1]);
                note("R" + std::to_string(w) + ".insertAll(R" + std::to_string(1 - w) + ")");
            } else if (op < 80) {
                // this.extendAndInsert(other): this absorbs every class of other that shares an element with this;
                // other receives all pairs of (the original) this
                Model before = mod[w];
                auto es = before.elems();
                std::set<RamDomain> reps;
                for (auto e : es)
                    if (mod[1 - w].has(e)) reps.insert(mod[1 - w].find(e));
                for (auto e : mod[1 - w].elems())
                    if (reps.count(mod[1 - w].find(e))) mod[w].unite(e, mod[1 - w].find(e));
                for (auto e : es) mod[1 - w].unite(e, before.find(e));
                rel[w].extendAndInsert(rel[1 - w]);
                note("R" + std::to_string(w) + ".extendAndInsert(R" + std::to_string(1 - w) + ")");
            } else if (op < 97) {
                if (!compare(rel[w], mod[w], rep, h, "mid-history", cur_desc + " |" + trace, rng)) bad = true;
                st.add("full_comparisons");
            } else {
                rel[w].clear();
                mod[w] = Model();
                note("R" + std::to_string(w) + ".clear");
            }
            st.add("ops");
        }
        for (int w = 0; w < 2 && !bad; w++)
            if (!compare(rel[w], mod[w], rep, h, "end", cur_desc + " |" + trace, rng)) bad = true;
        st.add("histories");
        st.add("histories_with_overlap");
        if (rep.violations >= 20) break;
    }
    st.add("violations", rep.violations);
    for (auto& k : rep.keys) st.add("viol_" + k.first, k.second);
    st.print();
    return rep.violations ? 1 : 0;
}

}  // namespace

int main(int argc, char** argv) {
    hc::Args args(argc, argv);
    Params P;
    P.seed = args.num("seed", 1);
    P.first = args.num("first", 0);
    P.count = args.num("count", 1000);
    P.maxT = (int)args.num("threads", 3);
    P.maxK = (int)args.num("ops", 40);
    P.range = (int)args.num("range", 16);
    P.budget = args.num("budget", 4000000);
    P.fixed = args.has("fixed");
    return run(P);
}
