// Shared helpers for the data-structure harnesses.
#pragma once
#include "vsched.h"

#include <cinttypes>
#include <cstdarg>
#include <cstdio>
#include <cstdlib>
#include <cstring>
#include <map>
#include <set>
#include <string>
#include <vector>

#if defined(__has_feature)
#if __has_feature(thread_sanitizer)
#define HC_TSAN 1
#endif
#endif
#if defined(__SANITIZE_THREAD__)
#define HC_TSAN 1
#endif
#ifndef HC_TSAN
#define HC_TSAN 0
#endif

namespace hc {

// logical time stamp for history records; 0 under ThreadSanitizer (no added synchronisation)
inline uint64_t stamp() {
#if HC_TSAN
    return 0;
#else
    return vs::now();
#endif
}

struct Rng {
    uint64_t s;
    explicit Rng(uint64_t seed) : s(seed * 0x9E3779B97F4A7C15ULL + 0x632BE59BD9B4E019ULL) {
        if (s == 0) s = 1;
        for (int i = 0; i < 4; i++) next();
    }
    uint64_t next() {
        s ^= s << 13;
        s ^= s >> 7;
        s ^= s << 17;
        return s * 0x2545F4914F6CDD1DULL;
    }
    uint64_t below(uint64_t n) {
        return n ? (next() >> 24) % n : 0;
    }
    bool chance(uint64_t num, uint64_t den) {
        return below(den) < num;
    }
};

inline uint64_t mix(uint64_t a, uint64_t b) {
    uint64_t x = a * 0x9E3779B97F4A7C15ULL ^ (b + 0x7F4A7C15ULL) * 0xBF58476D1CE4E5B9ULL;
    x ^= x >> 31;
    x *= 0x94D049BB133111EBULL;
    x ^= x >> 29;
    return x;
}

struct Args {
    std::map<std::string, std::string> kv;
    Args(int argc, char** argv) {
        for (int i = 1; i < argc; i++) {
            std::string a = argv[i];
            if (a.rfind("--", 0) == 0) {
                std::string k = a.substr(2);
                std::string v = "1";
                auto eq = k.find('=');
                if (eq != std::string::npos) {
                    v = k.substr(eq + 1);
                    k = k.substr(0, eq);
                } else if (i + 1 < argc && std::string(argv[i + 1]).rfind("--", 0) != 0) {
                    v = argv[++i];
                }
                kv[k] = v;
            }
        }
    }
    long long num(const std::string& k, long long def) const {
        auto it = kv.find(k);
        return it == kv.end() ? def : atoll(it->second.c_str());
    }
    std::string str(const std::string& k, const std::string& def) const {
        auto it = kv.find(k);
        return it == kv.end() ? def : it->second;
    }
    bool has(const std::string& k) const {
        return kv.count(k) > 0;
    }
};

// Violations are printed as single lines: VIOL key=<key> hist=<n> detail=<free text>
struct Report {
    int violations = 0;
    int max_print = 5;
    std::map<std::string, int> keys;
    void viol(const std::string& key, long long hist, const char* fmt, ...) {
        ++violations;
        ++keys[key];
        if (violations > max_print) return;
        char buf[4096];
        va_list ap;
        va_start(ap, fmt);
        vsnprintf(buf, sizeof buf, fmt, ap);
        va_end(ap);
        printf("VIOL key=%s hist=%lld detail=%s\n", key.c_str(), hist, buf);
        fflush(stdout);
    }
};

struct Stats {
    std::map<std::string, long long> n;
    std::set<uint64_t> schedules;
    void add(const std::string& k, long long v = 1) {
        n[k] += v;
    }
    void print() {
        printf("STATS {");
        bool first = true;
        for (auto& e : n) {
            printf("%s\"%s\": %lld", first ? "" : ", ", e.first.c_str(), e.second);
            first = false;
        }
        printf("%s\"distinct_schedules\": %zu", first ? "" : ", ", schedules.size());
        printf(", \"edges_total\": %zu, \"edges_hit\": %zu", vs::edges_total(), vs::edges_hit());
        printf(", \"serial\": %d}\n", vs::is_serial() ? 1 : 0);
        fflush(stdout);
    }
};

}  // namespace hc
