// C27 harness: souffle::Trie<1..4> under concurrent insertion, followed by queries against a set model.
#include "hcommon.h"
#include "souffle/RamTypes.h"
#include "souffle/utility/StreamUtil.h"
#include "souffle/datastructure/Brie.h"

#include <algorithm>
#include <array>
#include <set>

using namespace souffle;

namespace {

struct Params {
    uint64_t seed;
    long long first, count;
    int maxT, maxK, range;
    uint64_t budget;
    bool fixed;
};

template <unsigned Dim>
std::string tstr(const typename Trie<Dim>::entry_type& t) {
    std::string s = "(";
    for (unsigned i = 0; i < Dim; i++) s += (i ? "," : "") + std::to_string(t[i]);
    return s + ")";
}

// value pools: dense small, sparse 32-bit (forces raiseLevel / first-node updates), extremes
static RamDomain pick(hc::Rng& rng, int mode, int range) {
    switch (mode) {
        case 0: return (RamDomain)rng.below(range);
        case 1: {
            static const RamDomain sp[] = {0, 1, 63, 64, 65, 4095, 4096, 1 << 18, (1 << 18) + 1, 1 << 24, 0x7fffffff, (RamDomain)0x80000000, -1, -2, -64, -65, 1000000007, -1000000007};
            return sp[rng.below(sizeof(sp) / sizeof(sp[0]))];
        }
        case 2: return (RamDomain)(rng.next() >> 16);
        default: return (RamDomain)(rng.below(range)) * (RamDomain)(1 << (rng.below(4) * 6));
    }
}

template <unsigned Dim>
int run_cfg(const Params& P) {
    using T = Trie<Dim>;
    using E = typename T::entry_type;
    hc::Report rep;
    hc::Stats st;
    static long long cur_hist;
    static std::string cur_desc;
    vs::set_hang_handler([]() {
        printf("VIOL key=hang hist=%lld detail=step budget exhausted (insert does not terminate) | %s\n", cur_hist, cur_desc.c_str());
        fflush(stdout);
    });
    for (long long h = P.first; h < P.first + P.count; h++) {
        hc::Rng rng(hc::mix(P.seed, h));
        int Tn = P.fixed ? P.maxT : 2 + (int)rng.below(P.maxT - 1);
        int K = P.fixed ? P.maxK : 1 + (int)rng.below(P.maxK);
        int range = 2 + (int)rng.below(P.range);
        int mode = (int)rng.below(4);
        static const uint32_t invs[] = {2, 4, 8, 16, 32, 64, 128, 256};
        vs::Config cfg;
        cfg.seed = hc::mix(P.seed ^ 0xb71e, h);
        cfg.switch_inv = invs[rng.below(8)];
        cfg.step_budget = P.budget;
        bool hints = rng.chance(1, 2);
        // a shared pool so that threads collide on the same tuples and prefixes
        std::vector<E> pool;
        int poolsz = 2 + (int)rng.below((uint64_t)Tn * K);
        for (int i = 0; i < poolsz; i++) {
            E e;
            for (unsigned d = 0; d < Dim; d++) e[d] = pick(rng, rng.chance(1, 4) ? (int)rng.below(4) : mode, range);
            if (i > 0 && rng.chance(1, 3)) {
                // share a prefix with an earlier tuple
                const E& o = pool[rng.below(pool.size())];
                unsigned keep = (unsigned)rng.below(Dim);
                for (unsigned d = 0; d < keep; d++) e[d] = o[d];
            }
            pool.push_back(e);
        }
        std::vector<std::vector<E>> seqs(Tn);
        for (int t = 0; t < Tn; t++)
            for (int k = 0; k < K; k++) seqs[t].push_back(pool[rng.below(pool.size())]);
        char buf[160];
        snprintf(buf, sizeof buf, "dim=%u T=%d K=%d range=%d mode=%d hints=%d inv=%u", Dim, Tn, K, range, mode, (int)hints, cfg.switch_inv);
        cur_desc = buf;
        cur_hist = h;
        T trie;
        std::vector<std::vector<char>> results(Tn);
        std::vector<std::function<void()>> clients;
        for (int t = 0; t < Tn; t++) {
            results[t].assign(seqs[t].size(), 0);
            clients.push_back([&, t]() {
                typename T::op_context ctxt;
                for (size_t i = 0; i < seqs[t].size(); i++) {
                    bool r = hints ? trie.insert(seqs[t][i], ctxt) : trie.insert(seqs[t][i]);
                    results[t][i] = r ? 1 : 0;
                }
            });
        }
        vs::run(cfg, clients);
        st.add("histories");
        st.add("steps", (long long)vs::steps());
        st.add("switches", (long long)vs::switches());
        st.schedules.insert(vs::schedule_hash());
        st.add("histories_with_overlap");
        st.add("inserts", (long long)Tn * K);

        std::map<E, int> trues;
        std::set<E> model;
        for (int t = 0; t < Tn; t++)
            for (size_t i = 0; i < seqs[t].size(); i++) {
                model.insert(seqs[t][i]);
                if (results[t][i]) trues[seqs[t][i]]++;
            }
        std::string seqdump;
        auto wit = [&]() {
            if (seqdump.empty()) {
                seqdump = cur_desc + " seqs:";
                for (int t = 0; t < Tn; t++) {
                    seqdump += " T" + std::to_string(t) + ":";
                    for (size_t i = 0; i < seqs[t].size() && i < 24; i++) seqdump += " " + tstr<Dim>(seqs[t][i]) + (results[t][i] ? "+" : "-");
                }
            }
            return seqdump.c_str();
        };
        for (auto& k : model) {
            int c = trues.count(k) ? trues[k] : 0;
            if (c != 1) {
                rep.viol(c == 0 ? "no-success-for-tuple" : "double-success-for-tuple", h, "tuple %s: insert reported success %d times | %s", tstr<Dim>(k).c_str(), c, wit());
                break;
            }
        }
        // iteration: every tuple exactly once
        std::multiset<E> content;
        size_t n = 0;
        for (auto it = trie.begin(); it != trie.end(); ++it) {
            content.insert(*it);
            if (++n > model.size() + 8) break;
        }
        std::multiset<E> want(model.begin(), model.end());
        if (content != want) rep.viol("iteration-not-the-union", h, "iteration lists %zu tuples, the union has %zu | %s", content.size(), want.size(), wit());
        if (trie.size() != model.size()) rep.viol("size-wrong", h, "size()=%zu, model %zu | %s", (size_t)trie.size(), model.size(), wit());
        if (trie.empty() != model.empty()) rep.viol("empty-wrong", h, "empty() disagrees | %s", wit());
        // membership and prefix ranges
        typename T::op_context qc;
        for (int q = 0; q < 24; q++) {
            E e = rng.chance(2, 3) ? pool[rng.below(pool.size())] : E{};
            if (rng.chance(1, 3))
                for (unsigned d = 0; d < Dim; d++)
                    if (rng.chance(1, 2)) e[d] = pick(rng, mode, range);
            bool in = model.count(e) > 0;
            bool c = rng.chance(1, 2) ? trie.contains(e, qc) : trie.contains(e);
            if (c != in) rep.viol("contains-wrong", h, "contains(%s)=%d model %d | %s", tstr<Dim>(e).c_str(), (int)c, (int)in, wit());
            auto f = trie.find(e, qc);
            if ((f != trie.end()) != in || (in && !(*f == e))) rep.viol("find-wrong", h, "find(%s) disagrees with the model | %s", tstr<Dim>(e).c_str(), wit());
            // getBoundaries<L>: all tuples sharing the first L columns
            auto check_prefix = [&](unsigned L, souffle::range<typename T::iterator> r) {
                std::multiset<E> got;
                size_t m = 0;
                for (auto it = r.begin(); it != r.end(); ++it) {
                    got.insert(*it);
                    if (++m > model.size() + 8) break;
                }
                std::multiset<E> exp;
                for (auto& x : model) {
                    bool same = true;
                    for (unsigned d = 0; d < L; d++) same = same && x[d] == e[d];
                    if (same) exp.insert(x);
                }
                if (got != exp) rep.viol("prefix-range-wrong", h, "getBoundaries<%u>(%s) lists %zu tuples, the model %zu | %s", L, tstr<Dim>(e).c_str(), got.size(), exp.size(), wit());
            };
            check_prefix(0, trie.template getBoundaries<0>(e, qc));
            if constexpr (Dim >= 1) check_prefix(1, trie.template getBoundaries<1>(e, qc));
            if constexpr (Dim >= 2) check_prefix(2, trie.template getBoundaries<2>(e, qc));
            if constexpr (Dim >= 3) check_prefix(3, trie.template getBoundaries<3>(e, qc));
            if constexpr (Dim >= 4) check_prefix(4, trie.template getBoundaries<4>(e, qc));
        }
        // partition: every tuple exactly once over all chunks
        for (unsigned chunks : {1u, 2u, 5u, 64u, 500u}) {
            std::multiset<E> got;
            size_t m = 0;
            for (auto& r : trie.partition(chunks))
                for (auto it = r.begin(); it != r.end(); ++it) {
                    got.insert(*it);
                    if (++m > model.size() + 8) break;
                }
            if (got != want) {
                rep.viol("partition-wrong", h, "partition(%u) lists %zu tuples, expected each of the %zu tuples exactly once | %s", chunks, got.size(), want.size(), wit());
                break;
            }
        }
        if (rep.violations >= 20) break;
    }
    st.add("violations", rep.violations);
    for (auto& k : rep.keys) st.add("viol_" + k.first, k.second);
    st.print();
    return rep.violations ? 1 : 0;
}

}  // namespace

int main(int argc, char** argv) {
    hc::Args args(argc, argv);
    Params P;
    P.seed = args.num("seed", 1);
    P.first = args.num("first", 0);
    P.count = args.num("count", 1000);
    P.maxT = (int)args.num("threads", 3);
    P.maxK = (int)args.num("ops", 10);
    P.range = (int)args.num("range", 40);
    P.budget = args.num("budget", 4000000);
    P.fixed = args.has("fixed");
    switch ((int)args.num("dim", 2)) {
        case 1: return run_cfg<1>(P);
        case 2: return run_cfg<2>(P);
        case 3: return run_cfg<3>(P);
        case 4: return run_cfg<4>(P);
    }
    fprintf(stderr, "unknown dim\n");
    return 2;
}
