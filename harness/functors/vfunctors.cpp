// User-defined functors for the C12 lattice check: monotone joins / meets over finite-height lattices (stateful signature).
#include "souffle/RecordTable.h"
#include "souffle/SymbolTable.h"
#include <algorithm>
#include <cstdint>

using souffle::RamDomain;

extern "C" {

RamDomain vmax(souffle::SymbolTable*, souffle::RecordTable*, RamDomain a, RamDomain b) {
    return std::max(a, b);
}
RamDomain vmin(souffle::SymbolTable*, souffle::RecordTable*, RamDomain a, RamDomain b) {
    return std::min(a, b);
}
RamDomain vor(souffle::SymbolTable*, souffle::RecordTable*, RamDomain a, RamDomain b) {
    return a | b;
}
RamDomain vand(souffle::SymbolTable*, souffle::RecordTable*, RamDomain a, RamDomain b) {
    return a & b;
}
// intervals [lo, hi]; bottom = [0, -1] (empty)
RamDomain vhull(souffle::SymbolTable*, souffle::RecordTable* rt, RamDomain a, RamDomain b) {
    const RamDomain* x = rt->unpack(a, 2);
    const RamDomain* y = rt->unpack(b, 2);
    if (x[0] > x[1]) return b;
    if (y[0] > y[1]) return a;
    const RamDomain r[2] = {std::min(x[0], y[0]), std::max(x[1], y[1])};
    return rt->pack(r, 2);
}
RamDomain vmeet(souffle::SymbolTable*, souffle::RecordTable* rt, RamDomain a, RamDomain b) {
    const RamDomain* x = rt->unpack(a, 2);
    const RamDomain* y = rt->unpack(b, 2);
    RamDomain r[2] = {std::max(x[0], y[0]), std::min(x[1], y[1])};
    if (r[0] > r[1]) {
        r[0] = 0;
        r[1] = -1;
    }
    return rt->pack(r, 2);
}
}
