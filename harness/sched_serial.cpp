// Serial (cooperative) scheduler runtime. Compiled WITHOUT instrumentation.
// The harness TU is compiled with
//   -fsanitize-coverage=trace-pc-guard,trace-loads,trace-stores
// so that every basic-block edge and every load/store of the container under test calls
// into this file, where a seeded policy may hand the single run token to another client.
#include "vsched.h"

#include <atomic>
#include <cstdio>
#include <cstdlib>
#include <cstring>
#include <dlfcn.h>
#include <pthread.h>
#include <sched.h>
#include <semaphore.h>
#include <unistd.h>

namespace {

constexpr int MAXT = 16;

struct Worker {
    pthread_t th;
    sem_t sem;
    bool live = false;
    const std::function<void()>* fn = nullptr;
};

Worker g_w[MAXT];
int g_pool = 0;
int g_n = 0;           // clients in the current run
int g_live = 0;
sem_t g_done;
bool g_running = false;

uint64_t g_rng = 1;
uint32_t g_switch_inv = 16;
uint64_t g_steps = 0, g_budget = 0, g_switches = 0, g_hash = 0;
bool g_hung = false;

void (*g_step_hook)() = nullptr;
void (*g_hang_handler)() = nullptr;

thread_local int tl_id = -1;
thread_local int tl_nopreempt = 0;

// coverage
uint32_t* g_guard_start = nullptr;
uint32_t* g_guard_stop = nullptr;
std::vector<uint64_t>* g_edge_hits = nullptr;
size_t g_edges_hit = 0;

inline uint64_t next_rand() {
    uint64_t x = g_rng;
    x ^= x << 13;
    x ^= x >> 7;
    x ^= x << 17;
    g_rng = x;
    return x * 0x2545F4914F6CDD1DULL;
}

void hand_over(int to) {
    int me = tl_id;
    ++g_switches;
    g_hash = (g_hash ^ (g_steps * 16 + (uint64_t)to)) * 0x100000001b3ULL;
    sem_post(&g_w[to].sem);
    sem_wait(&g_w[me].sem);
}

int pick_other(int me) {
    // uniformly among live clients other than me; -1 if none
    int cnt = 0;
    for (int i = 0; i < g_n; i++)
        if (i != me && g_w[i].live) cnt++;
    if (cnt == 0) return -1;
    int k = (int)((next_rand() >> 33) % (uint64_t)cnt);
    for (int i = 0; i < g_n; i++)
        if (i != me && g_w[i].live) {
            if (k == 0) return i;
            k--;
        }
    return -1;
}

void hang() {
    g_hung = true;
    ++tl_nopreempt;
    if (g_hang_handler) g_hang_handler();
    fprintf(stdout, "HANG steps=%llu switches=%llu\n", (unsigned long long)g_steps,
            (unsigned long long)g_switches);
    fflush(stdout);
    _exit(3);
}

inline void sched_point(bool forced) {
    if (tl_id < 0 || tl_nopreempt > 0) return;
    ++g_steps;
    if (g_steps > g_budget) hang();
    if (g_step_hook) {
        ++tl_nopreempt;
        g_step_hook();
        --tl_nopreempt;
    }
    bool sw = forced || ((next_rand() >> 33) % g_switch_inv == 0);
    if (!sw) return;
    int to = pick_other(tl_id);
    if (to >= 0) hand_over(to);
}

void* worker_main(void* arg) {
    int id = (int)(intptr_t)arg;
    for (;;) {
        sem_wait(&g_w[id].sem);  // token for the first time in this history
        tl_id = id;
        (*g_w[id].fn)();
        // finished: leave the history
        ++tl_nopreempt;
        g_w[id].live = false;
        --g_live;
        tl_id = -1;
        --tl_nopreempt;
        if (g_live == 0) {
            sem_post(&g_done);
        } else {
            int to = pick_other(id);
            ++g_switches;
            g_hash = (g_hash ^ (g_steps * 16 + (uint64_t)to)) * 0x100000001b3ULL;
            sem_post(&g_w[to].sem);
        }
    }
    return nullptr;
}

void ensure_pool(int n) {
    static bool init = false;
    if (!init) {
        sem_init(&g_done, 0, 0);
        init = true;
    }
    while (g_pool < n) {
        sem_init(&g_w[g_pool].sem, 0, 0);
        pthread_attr_t at;
        pthread_attr_init(&at);
        pthread_attr_setstacksize(&at, 4 << 20);
        pthread_create(&g_w[g_pool].th, &at, worker_main, (void*)(intptr_t)g_pool);
        pthread_attr_destroy(&at);
        g_pool++;
    }
}

}  // namespace

namespace vs {

bool is_serial() {
    return true;
}

bool run(const Config& cfg, const std::vector<std::function<void()>>& clients) {
    int n = (int)clients.size();
    if (n > MAXT) abort();
    ensure_pool(n);
    g_n = n;
    g_rng = cfg.seed * 0x9E3779B97F4A7C15ULL + 0x1234567ULL;
    if (g_rng == 0) g_rng = 1;
    for (int i = 0; i < 4; i++) next_rand();
    g_switch_inv = cfg.switch_inv ? cfg.switch_inv : 1;
    g_budget = cfg.step_budget;
    g_steps = g_switches = 0;
    g_hash = 0xcbf29ce484222325ULL;
    g_hung = false;
    for (int i = 0; i < n; i++) {
        g_w[i].live = true;
        g_w[i].fn = &clients[i];
    }
    g_live = n;
    g_running = true;
    int first = (int)((next_rand() >> 33) % (uint64_t)n);
    g_hash = (g_hash ^ (uint64_t)first) * 0x100000001b3ULL;
    sem_post(&g_w[first].sem);
    sem_wait(&g_done);
    g_running = false;
    return !g_hung;
}

void atomic_begin() {
    ++tl_nopreempt;
}
void atomic_end() {
    --tl_nopreempt;
}
uint64_t now() {
    static uint64_t clock = 0;  // only the token holder (or the quiescent controller) calls this
    return ++clock;
}
int self() {
    return tl_id;
}
uint64_t steps() {
    return g_steps;
}
uint64_t switches() {
    return g_switches;
}
uint64_t schedule_hash() {
    return g_hash;
}
size_t edges_total() {
    return g_guard_stop - g_guard_start;
}
size_t edges_hit() {
    return g_edges_hit;
}
uint64_t edge_hits(size_t idx) {
    return (g_edge_hits && idx < g_edge_hits->size()) ? (*g_edge_hits)[idx] : 0;
}
void set_step_hook(void (*hook)()) {
    g_step_hook = hook;
}
void set_hang_handler(void (*h)()) {
    g_hang_handler = h;
}
void point() {
    sched_point(false);
}

}  // namespace vs

// ---------------------------------------------------------------------------------------
// compiler-inserted callbacks
// ---------------------------------------------------------------------------------------
extern "C" {

void __sanitizer_cov_trace_pc_guard_init(uint32_t* start, uint32_t* stop) {
    if (start == stop || *start) return;
    // a single instrumented DSO is expected; number guards from 1
    g_guard_start = start;
    g_guard_stop = stop;
    uint32_t n = 0;
    for (uint32_t* x = start; x < stop; x++) *x = ++n;
    g_edge_hits = new std::vector<uint64_t>(n + 1, 0);
}

void __sanitizer_cov_trace_pc_guard(uint32_t* guard) {
    if (tl_id < 0) return;
    uint32_t g = *guard;
    if (g && g_edge_hits) {
        uint64_t& c = (*g_edge_hits)[g];
        if (c == 0) ++g_edges_hit;
        ++c;
    }
    sched_point(false);
}

#define VS_CB(name, T) \
    void name(T* addr) { (void)addr; sched_point(false); }
VS_CB(__sanitizer_cov_load1, uint8_t)
VS_CB(__sanitizer_cov_load2, uint16_t)
VS_CB(__sanitizer_cov_load4, uint32_t)
VS_CB(__sanitizer_cov_load8, uint64_t)
VS_CB(__sanitizer_cov_load16, __uint128_t)
VS_CB(__sanitizer_cov_store1, uint8_t)
VS_CB(__sanitizer_cov_store2, uint16_t)
VS_CB(__sanitizer_cov_store4, uint32_t)
VS_CB(__sanitizer_cov_store8, uint64_t)
VS_CB(__sanitizer_cov_store16, __uint128_t)
#undef VS_CB

// ---------------------------------------------------------------------------------------
// blocking primitives: turn them into try + forced yield so a descheduled owner can run
// ---------------------------------------------------------------------------------------
typedef int (*mutex_fn)(pthread_mutex_t*);

int pthread_mutex_lock(pthread_mutex_t* m) {
    static mutex_fn real_lock = (mutex_fn)dlsym(RTLD_NEXT, "pthread_mutex_lock");
    static mutex_fn real_try = (mutex_fn)dlsym(RTLD_NEXT, "pthread_mutex_trylock");
    if (tl_id < 0 || tl_nopreempt > 0) return real_lock(m);
    sched_point(false);
    for (;;) {
        int r = real_try(m);
        if (r == 0) return 0;
        sched_point(true);
    }
}

int pthread_mutex_unlock(pthread_mutex_t* m) {
    static mutex_fn real_unlock = (mutex_fn)dlsym(RTLD_NEXT, "pthread_mutex_unlock");
    int r = real_unlock(m);
    if (tl_id >= 0 && tl_nopreempt == 0) sched_point(false);
    return r;
}

int sched_yield(void) {
    if (tl_id >= 0 && tl_nopreempt == 0) {
        sched_point(true);
        return 0;
    }
    static int (*real)(void) = (int (*)(void))dlsym(RTLD_NEXT, "sched_yield");
    return real();
}

}
