// C29 harness: souffle::DisjointSet (lock-free union-find) under the serial scheduler
// (pre-emption at every load/store/edge of UnionFind.h) or free-running threads.
#include "hcommon.h"
#include "souffle/datastructure/UnionFind.h"

#include <algorithm>
#include <memory>

using namespace souffle;

namespace {

enum OpType { UNION = 0, SAME = 1, FIND = 2 };
struct Op {
    int type;
    uint64_t x, y;
    uint64_t call = 0, ret = 0;
    uint64_t result = 0;
    bool done = false;
};

struct Model {  // tiny sequential union-find over <= 64 nodes
    std::vector<int> p;
    explicit Model(int n) : p(n) {
        for (int i = 0; i < n; i++) p[i] = i;
    }
    int f(int x) {
        while (p[x] != x) x = p[x] = p[p[x]];
        return x;
    }
    void u(int a, int b) {
        a = f(a);
        b = f(b);
        if (a != b) p[a] = b;
    }
    bool same(int a, int b) {
        return f(a) == f(b);
    }
};

DisjointSet* g_ds = nullptr;
int g_nodes = 0;
std::vector<std::pair<int, int>>* g_invoked = nullptr;  // unions invoked so far (serial mode)
const char* g_step_viol = nullptr;
char g_step_detail[512];

// read-only walk to the root; returns -1 on a cycle that is not a self loop
int walk_root(int x) {
    for (int i = 0; i <= g_nodes + 1; i++) {
        int p = (int)DisjointSet::b2p(g_ds->get(x).load(std::memory_order_relaxed));
        if (p == x) return x;
        if (p < 0 || p >= g_nodes) return -2;
        x = p;
    }
    return -1;
}

void step_hook() {
    if (g_step_viol || !g_ds) return;
    Model m(g_nodes);
    for (auto& e : *g_invoked) m.u(e.first, e.second);
    for (int x = 0; x < g_nodes; x++) {
        int r = walk_root(x);
        if (r == -1) {
            g_step_viol = "cycle";
            int p = (int)DisjointSet::b2p(g_ds->get(x).load());
            snprintf(g_step_detail, sizeof g_step_detail, "parent chain from node %d (parent %d) never reaches a root", x, p);
            return;
        }
        if (r == -2) {
            g_step_viol = "wild-parent";
            snprintf(g_step_detail, sizeof g_step_detail, "node %d has an out-of-range parent", x);
            return;
        }
        if (!m.same(x, r)) {
            g_step_viol = "overmerge";
            snprintf(g_step_detail, sizeof g_step_detail, "node %d reaches root %d although no invoked chain of unions connects them", x, r);
            return;
        }
    }
}

std::string dump_state() {
    std::string s;
    for (int x = 0; x < g_nodes; x++) {
        block_t b = g_ds->get(x).load();
        char buf[64];
        snprintf(buf, sizeof buf, "%d->%d(r%d) ", x, (int)DisjointSet::b2p(b), (int)DisjointSet::b2r(b));
        s += buf;
    }
    return s;
}

std::string dump_ops(const std::vector<std::vector<Op>>& ops) {
    std::string s;
    for (size_t t = 0; t < ops.size(); t++) {
        s += "T" + std::to_string(t) + ":";
        for (auto& o : ops[t]) {
            char buf[96];
            const char* nm = o.type == UNION ? "u" : o.type == SAME ? "same" : "find";
            if (o.type == FIND)
                snprintf(buf, sizeof buf, " %s(%d)", nm, (int)o.x);
            else
                snprintf(buf, sizeof buf, " %s(%d,%d)", nm, (int)o.x, (int)o.y);
            s += buf;
            if (o.done && o.type != UNION) s += "=" + std::to_string(o.result);
        }
        s += "; ";
    }
    return s;
}

const std::vector<std::vector<Op>>* g_cur_ops = nullptr;
long long g_cur_hist = -1;
void hang_handler() {
    printf("VIOL key=hang hist=%lld detail=step budget exhausted; state: %s ops: %s\n", g_cur_hist,
            g_ds ? dump_state().c_str() : "", g_cur_ops ? dump_ops(*g_cur_ops).c_str() : "");
    fflush(stdout);
}

// exact linearizability check (unions and sameSets) by DP over subsets; <= 14 ops
bool linearizable(const std::vector<Op*>& all, int nodes) {
    int n = (int)all.size();
    std::vector<uint32_t> pred(n, 0);  // ops that must precede i
    for (int i = 0; i < n; i++)
        for (int j = 0; j < n; j++)
            if (i != j && all[j]->ret < all[i]->call) pred[i] |= 1u << j;
    std::vector<char> reach(1u << n, 0);
    reach[0] = 1;
    for (uint32_t mask = 0; mask < (1u << n); mask++) {
        if (!reach[mask]) continue;
        Model m(nodes);
        for (int j = 0; j < n; j++)
            if ((mask >> j & 1) && all[j]->type == UNION) m.u((int)all[j]->x, (int)all[j]->y);
        for (int i = 0; i < n; i++) {
            if (mask >> i & 1) continue;
            if ((pred[i] & mask) != pred[i]) continue;
            if (all[i]->type == SAME) {
                if (m.same((int)all[i]->x, (int)all[i]->y) != (all[i]->result != 0)) continue;
            } else if (all[i]->type == FIND) {
                if (!m.same((int)all[i]->x, (int)all[i]->result)) continue;
            }
            reach[mask | (1u << i)] = 1;
        }
    }
    return reach[(1u << n) - 1];
}

}  // namespace

int main(int argc, char** argv) {
    hc::Args args(argc, argv);
    uint64_t seed = args.num("seed", 1);
    long long first = args.num("first", 0), count = args.num("count", 1000);
    int maxT = (int)args.num("threads", 3), maxK = (int)args.num("ops", 3), maxM = (int)args.num("nodes", 4);
    bool fixedShape = args.has("fixed");
    bool verbose = args.has("verbose");
    bool stepcheck = !args.has("nostep");
    uint64_t budget = args.num("budget", 400000);
    hc::Report rep;
    hc::Stats st;
    vs::set_hang_handler(hang_handler);

    for (long long h = first; h < first + count; h++) {
        hc::Rng rng(hc::mix(seed, h));
        int T = fixedShape ? maxT : 2 + (int)rng.below(maxT - 1);
        int K = fixedShape ? maxK : 1 + (int)rng.below(maxK);
        int M = fixedShape ? maxM : 2 + (int)rng.below(maxM - 1);
        static const uint32_t invs[] = {2, 3, 4, 8, 16, 32, 64, 128};
        vs::Config cfg;
        cfg.seed = hc::mix(seed ^ 0xabcdef, h);
        cfg.switch_inv = invs[rng.below(8)];
        cfg.step_budget = budget;

        DisjointSet ds;
        for (int i = 0; i < M; i++) ds.makeNode();
        std::vector<std::vector<Op>> ops(T);
        for (int t = 0; t < T; t++)
            for (int k = 0; k < K; k++) {
                Op o;
                uint64_t r = rng.below(100);
                o.type = r < 60 ? UNION : r < 85 ? SAME : FIND;
                o.x = rng.below(M);
                o.y = rng.below(M);
                ops[t].push_back(o);
            }
        std::vector<std::pair<int, int>> invoked;
        g_ds = &ds;
        g_nodes = M;
        g_invoked = &invoked;
        g_step_viol = nullptr;
        g_cur_ops = &ops;
        g_cur_hist = h;
        if (vs::is_serial() && stepcheck) vs::set_step_hook(step_hook);

        std::vector<std::function<void()>> clients;
        for (int t = 0; t < T; t++) {
            clients.push_back([&, t]() {
                for (auto& o : ops[t]) {
                    vs::atomic_begin();
                    o.call = hc::stamp();
                    if (o.type == UNION && vs::is_serial()) invoked.push_back({(int)o.x, (int)o.y});
                    vs::atomic_end();
                    uint64_t res = 0;
                    if (o.type == UNION)
                        ds.unionNodes(o.x, o.y);
                    else if (o.type == SAME)
                        res = ds.sameSet(o.x, o.y) ? 1 : 0;
                    else
                        res = ds.findNode(o.x);
                    vs::atomic_begin();
                    o.result = res;
                    o.ret = hc::stamp();
                    o.done = true;
                    vs::atomic_end();
                }
            });
        }
        vs::run(cfg, clients);
        vs::set_step_hook(nullptr);
        st.add("histories");
        st.add("steps", (long long)vs::steps());
        st.add("switches", (long long)vs::switches());
        st.schedules.insert(vs::schedule_hash());

        std::string witness;
        auto mkwit = [&]() {
            if (witness.empty()) witness = "T=" + std::to_string(T) + " K=" + std::to_string(K) + " M=" + std::to_string(M) + " inv=" + std::to_string(cfg.switch_inv) + " ops: " + dump_ops(ops) + " final: " + dump_state();
            return witness.c_str();
        };
        if (g_step_viol) {
            rep.viol(std::string("step-") + g_step_viol, h, "%s | %s", g_step_detail, mkwit());
        }
        // quiescent checks
        bool cyc = false;
        for (int x = 0; x < M; x++)
            if (walk_root(x) < 0) cyc = true;
        if (cyc) {
            rep.viol("final-cycle", h, "parent cycle after quiescence | %s", mkwit());
            g_ds = nullptr;
            continue;  // findNode would spin
        }
        Model all(M);
        for (auto& th : ops)
            for (auto& o : th)
                if (o.type == UNION) all.u((int)o.x, (int)o.y);
        for (int a = 0; a < M && !rep.violations; a++)
            for (int b = 0; b < M; b++) {
                bool got = ds.sameSet(a, b);
                if (got != all.same(a, b)) {
                    rep.viol("final-partition", h, "sameSet(%d,%d)=%d, closure says %d | %s", a, b, (int)got, (int)all.same(a, b), mkwit());
                    break;
                }
            }
        // sameSet / find answers: sound interval bounds
        std::vector<Op*> flat;
        for (auto& th : ops)
            for (auto& o : th) flat.push_back(&o);
        long long trues = 0, falses = 0;
        for (Op* q : flat) {
            if (q->type == UNION || HC_TSAN) continue;
            Model inv(M), comp(M);
            for (Op* u : flat)
                if (u->type == UNION) {
                    if (u->call < q->ret) inv.u((int)u->x, (int)u->y);
                    if (u->ret < q->call) comp.u((int)u->x, (int)u->y);
                }
            if (q->type == SAME) {
                if (q->result) {
                    trues++;
                    if (!inv.same((int)q->x, (int)q->y)) rep.viol("same-true-early", h, "sameSet(%d,%d)=true but no invoked union chain connects them | %s", (int)q->x, (int)q->y, mkwit());
                } else {
                    falses++;
                    if (comp.same((int)q->x, (int)q->y)) rep.viol("same-false-late", h, "sameSet(%d,%d)=false although a completed union chain connects them | %s", (int)q->x, (int)q->y, mkwit());
                }
            } else {
                if (q->result >= (uint64_t)M || !inv.same((int)q->x, (int)q->result)) rep.viol("find-wrong", h, "find(%d)=%d not connected by invoked unions | %s", (int)q->x, (int)q->result, mkwit());
            }
        }
        st.add("same_true", trues);
        st.add("same_false", falses);
        if (flat.size() <= 14 && !HC_TSAN) {
            st.add("lin_checked");
            if (!linearizable(flat, M)) rep.viol("not-linearizable", h, "no linearization of the history exists | %s", mkwit());
        }
        long long overlapping = 0;
        for (size_t i = 0; i < flat.size(); i++)
            for (size_t j = i + 1; j < flat.size(); j++)
                if (flat[i]->call < flat[j]->ret && flat[j]->call < flat[i]->ret) overlapping++;
        st.add("overlapping_op_pairs", overlapping);
        if (overlapping) st.add("histories_with_overlap");
        if (verbose) printf("hist %lld: %s\n", h, mkwit());
        g_ds = nullptr;
        if (rep.violations >= 20) break;
    }
    st.add("violations", rep.violations);
    for (auto& k : rep.keys) st.add("viol_" + k.first, k.second);
    st.print();
    return rep.violations ? 1 : 0;
}
