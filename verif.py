#!/usr/bin/env python3
"""Entry point: python3 verif.py setup | check <Cxx> [--tier quick|thorough] | replay <path>"""
import argparse, importlib, json, os, sys

sys.path.insert(0, os.path.dirname(os.path.abspath(__file__)))
from vlib import core, build


def main():
    ap = argparse.ArgumentParser()
    sub = ap.add_subparsers(dest="cmd")
    s = sub.add_parser("setup")
    c = sub.add_parser("check")
    c.add_argument("prop")
    c.add_argument("--tier", default=os.environ.get("VERIF_TIER", "quick"))
    r = sub.add_parser("replay")
    r.add_argument("path")
    a = ap.parse_args()
    if a.cmd == "setup":
        from vlib import setup
        sys.exit(setup.main())
    if a.cmd == "check":
        seed = int(os.environ.get("VERIF_SEED", "1") or 1)
        tier = a.tier if a.tier in ("quick", "thorough") else "quick"
        mod = importlib.import_module("props." + a.prop.lower())
        sys.exit(core.run_check(a.prop.upper(), mod.check, tier, seed))
    if a.cmd == "replay":
        with open(a.path) as f:
            rp = json.load(f)
        print(json.dumps(rp, indent=1)[:20000])
        mod = importlib.import_module("props." + rp["property"].lower())
        if hasattr(mod, "replay"):
            sys.exit(mod.replay(rp))
        sys.exit(0)
    ap.print_help()
    sys.exit(2)


if __name__ == "__main__":
    main()
