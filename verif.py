#!/usr/bin/env python3
"""Entry point: python3 verif.py setup | check <Cxx> [--tier quick|thorough] | replay <path>"""
import argparse, importlib, json, os, sys

sys.path.insert(0, os.path.dirname(os.path.abspath(__file__)))
from vlib import core, build


def generic_replay(mod, rp):
    """re-runs the recorded case: a generated-program case is regenerated from its seed and run through the module's worker again
    (same oracle); a harness case re-runs the recorded command line. Exit 1 if the same violation key shows again, 0 if not."""
    import subprocess
    from props import progcommon as pc
    info = rp.get("replay", {})
    want = rp.get("key", "")
    if info.get("cmd"):
        cmd = info["cmd"].split() + (["--first", str(info["hist"]), "--count", "1"] if "hist" in info and "--first" not in info["cmd"] else [])
        print("re-running:", " ".join(cmd))
        r = subprocess.run(cmd, stdout=subprocess.PIPE, stderr=subprocess.STDOUT, text=True, timeout=3600)
        print(r.stdout[-3000:])
        return 1 if ("VIOL " in r.stdout or r.returncode not in (0,)) else 0
    seed = info.get("seed")
    if seed is None or not hasattr(mod, "worker"):
        print("nothing to re-run for this replay file")
        return 0
    t = pc.trees("plain")
    cands = [(seed, t["plain"])]
    if hasattr(mod, "any_worker"):
        cands = [(k, seed, t["plain"]) for k in ("interp", "diff", "probe", "compiled")]
    again = []
    for arg in cands:
        try:
            rec = (mod.any_worker if len(arg) == 3 else mod.worker)(arg)
        except Exception as e:      # a case kind that does not exist for this seed
            continue
        for k, dtl in rec.get("viols", []):
            again.append(k)
            print("key=%s\n%s\n" % (k, dtl[:3000]))
    print("recorded key: %s\nkeys observed now: %s" % (want, sorted(set(again))))
    return 1 if want in again or (again and not want) else 0


def main():
    ap = argparse.ArgumentParser()
    sub = ap.add_subparsers(dest="cmd")
    s = sub.add_parser("setup")
    c = sub.add_parser("check")
    c.add_argument("prop")
    c.add_argument("--tier", default=os.environ.get("VERIF_TIER", "quick"))
    r = sub.add_parser("replay")
    r.add_argument("path")
    a = ap.parse_args()
    if a.cmd == "setup":
        from vlib import setup
        sys.exit(setup.main())
    if a.cmd == "check":
        seed = int(os.environ.get("VERIF_SEED", "1") or 1)
        tier = a.tier if a.tier in ("quick", "thorough") else "quick"
        mod = importlib.import_module("props." + a.prop.lower())
        sys.exit(core.run_check(a.prop.upper(), mod.check, tier, seed))
    if a.cmd == "replay":
        with open(a.path) as f:
            rp = json.load(f)
        print(json.dumps(rp, indent=1)[:20000])
        mod = importlib.import_module("props." + rp["property"].lower())
        if hasattr(mod, "replay"):
            sys.exit(mod.replay(rp))
        sys.exit(generic_replay(mod, rp))
    ap.print_help()
    sys.exit(2)


if __name__ == "__main__":
    main()
